"""Wall-clock windows that do not exist (gap) or exist twice (fold) in the zones C18 compares, read from the
system's zoneinfo data: every change of UTC offset 1900-2200, found by a daily scan + bisection.  The list is
computed by the parent and handed to the battery processes, so the battery stays identical in every zone."""

from datetime import datetime, timedelta, timezone


def transitions(zone, y0=1900, y1=2200):
    from zoneinfo import ZoneInfo

    z = ZoneInfo(zone)
    utc = timezone.utc

    def off(t):
        return t.replace(tzinfo=utc).astimezone(z).utcoffset()

    out = []
    t = datetime(y0, 1, 1)
    end = datetime(y1, 1, 1)
    o = off(t)
    day = timedelta(days=1)
    while t < end:
        n = t + day
        on = off(n)
        if on != o:
            lo, hi = t, n  # off(lo) == o, off(hi) != o; a day holds at most one change in these zones
            while hi - lo > timedelta(seconds=1):
                mid = lo + (hi - lo) / 2
                mid = mid.replace(microsecond=0)
                if off(mid) == o:
                    lo = mid
                else:
                    hi = mid
            o2 = off(hi)
            wall0 = hi + o      # wall clock reading at the instant of the change, old offset
            wall1 = hi + o2     # and with the new offset
            kind = "gap" if o2 > o else "fold"
            start, stop = (wall0, wall1) if kind == "gap" else (wall1, wall0)
            out.append({"zone": zone, "kind": kind, "start": start.isoformat(), "minutes": (stop - start).total_seconds() / 60.0,
                        "covers_midnight": start.date() != stop.date() or (start.hour == 0 and start.minute == 0 and start.second == 0)})
            o = on
        t = n
    return out


_CACHE = {}


def all_windows(zones):
    key = tuple(zones)
    if key not in _CACHE:
        w = []
        for z in zones:
            if z != "UTC":
                w.extend(transitions(z))
        _CACHE[key] = w
    return _CACHE[key]


def pick(zones, rng, k):
    """All windows that cover a local midnight (rare, historical) plus k random others."""
    w = all_windows(zones)
    mid = [x for x in w if x["covers_midnight"]]
    rest = [x for x in w if not x["covers_midnight"]]
    # one of each (zone, kind, start month, start hour:minute) pattern first, then random
    return mid, [rng.choice(rest) for _ in range(k)]
