"""C13 - linear ticks are round, evenly spaced, complete, in-domain, uniquely labelled.

Deciding oracle: oracles/ticks.judge_linear_ticks over the values returned at the
API boundary by the real LinearScale.ticks(m) / tickFormat(m) (calls counted by a
wrapper so that a bypassed entry point makes the run inconclusive).
"""

from collections import Counter

from oracles import ticks as T
from vmon.core import HELD, INCONCLUSIVE, VIOLATED
from vmon.hooks import Patches
from workloads import lin

PROPERTY_ID = "C13"
LEVEL = "exploration"
RULE = (
    "seeded linear domains (either order) with span >= 1e-6*max|end|: random spans 1e-9..1e12 with offsets up to 1e5 spans, spans "
    "placed at the step-selection thresholds err=0.15/0.35/0.75 (+-1e-12, 1e-9, 1e-3), ends that are exact multiples of a 1-2-5 step, "
    "integer domains, narrow spans far from zero; m in 1..100 and the default. Each case: ticks(m) and tickFormat(m) of the real scale "
    "judged for 1-2-5 step, multiples, even spacing, in-domain, completeness, count bounds, distinct texts reading back within 1e-3 step. "
    "Non-trivial = at least 3 ticks and domain ends that are not themselves multiples of the step; distinct = distinct (domain, m)."
)
ASSUMPTIONS = ["tolerance 1e-5 of the step for multiples/spacing/completeness (float accumulation over <=144 additions under the statement's guard)"]


def plan(tier, seed):
    k = 8 if tier == "quick" else 64
    return [{"kind": "ticks", "sub": i, "n": 4000 if tier == "quick" else 30000} for i in range(k)]


def floors(tier):
    return {"evaluations": 8000, "strata": ["random", "threshold", "exact-multiples", "integers", "narrow"],
            "events": {"LinearScale.ticks": 8000, "LinearScale.tickFormat": 8000}, "distinct_nontrivial": 5000}


_REUSE = {"scale": None}


def run_case(ctx, S, a, b, m, tag, reuse=None):
    case = {"domain": [a, b], "m": m, "reuse": reuse}
    meff = 10 if m is None else m
    try:
        prev = _REUSE["scale"]
        if reuse == "same-object" and prev is not None:
            s = prev.domain([a, b])  # a scale that already produced ticks / formats for another domain
            ctx.path("reused-scale-object")
        elif reuse == "copy" and prev is not None:
            s = prev.copy().domain([a, b])
            ctx.path("copied-scale-object")
        elif reuse == "copy-sibling-asked-first" and prev is not None:
            # two live scales related by copy() hold different domains; the other one is asked for the same count first
            s = prev.copy().domain([a, b])
            list(prev.ticks(m)) if m is not None else list(prev.ticks())
            prev.tickFormat(m) if m is not None else prev.tickFormat()
            ctx.path("copy-sibling-asked-first")
        elif reuse == "same-object-after-a-degenerate-domain":
            # the scale object held a single-point domain before (ticks asked there too); it is an ordinary scale again afterwards
            s = S.LinearScale().domain([a, a])
            try:
                list(s.ticks(m)) if m is not None else list(s.ticks())
                s.tickFormat(m) if m is not None else s.tickFormat()
            except Exception:
                pass
            s.domain([a, b])
            ctx.path("same-object-after-a-degenerate-domain")
        elif reuse == "format-for-other-count-first":
            s = S.LinearScale().domain([a, b])
            s.tickFormat(3 if m != 3 else 7)
            list(s.ticks(50 if m != 50 else 5))
            ctx.path("format-for-other-count-first")
        elif reuse in ("ticks-then-nice", "ticks-then-nice-other-count"):
            # ticks and format asked for, then the domain moved by nice() (no domain() call in between): the ticks asked for
            # afterwards belong to the domain the scale reports then
            s = S.LinearScale().domain([a, b])
            list(s.ticks(m)) if m is not None else list(s.ticks())
            s.tickFormat(m) if m is not None else s.tickFormat()
            if reuse == "ticks-then-nice" and m is not None:
                s.nice(m)
            else:
                s.nice()
            a, b = s.domain()
            case["domain_after_nice"] = [a, b]
            ctx.path("ticks-then-nice" + ("-moved" if [a, b] != case["domain"] else "-unmoved"))
        else:
            s = S.LinearScale().domain([a, b])
        _REUSE["scale"] = s
        if hash((a, b)) % 4 == 0:
            s.range([0, [100, 960, 2000, 10000, -3000][hash((b, a)) % 5]])  # the output range has no say in ticks or formats
            ctx.path("with-an-output-range")
        if reuse == "float-count" and m is not None:
            m = float(m)  # a count given as a float with an integral value is the same count
            ctx.path("float-count")
        if reuse == "ticks-held-across-nice":
            # the result of ticks() is taken first, looked at only after nice() moved the domain: it belongs to the
            # domain the scale had when it was asked
            held = s.ticks(m) if m is not None else s.ticks()
            fmt = s.tickFormat(m) if m is not None else s.tickFormat()
            s.nice(m) if m is not None else s.nice()
            ticks = list(held)
            ctx.path("ticks-held-across-nice")
        elif reuse == "formatter-held-across-other-formats":
            # the formatter is taken first and used only after other scales (coarser and finer) were asked for theirs
            ticks = list(s.ticks(m)) if m is not None else list(s.ticks())
            fmt = s.tickFormat(m) if m is not None else s.tickFormat()
            for dom, mm in (([0.0, 1000.0], 10), ([0.0, 1e-4], 7), ([-5e6, 5e6], 3)):
                S.LinearScale().domain(dom).tickFormat(mm)(dom[1])
            list(s.ticks(m)) if m is not None else list(s.ticks())
            ctx.path("formatter-held-across-other-formats")
        else:
            ticks = list(s.ticks(m)) if m is not None else list(s.ticks())
            fmt = s.tickFormat(m) if m is not None else s.tickFormat()
        texts = [fmt(t) for t in ticks]
    except Exception as e:
        ctx.judge(tag, VIOLATED, case, finding="raised %s: %s" % (type(e).__name__, e), key="raised")
        return
    probs = T.judge_linear_ticks(a, b, meff, ticks, texts)
    if probs:
        ctx.judge(tag, VIOLATED, case, finding={"problems": probs[:4], "ticks": ticks[:8], "n": len(ticks), "texts": texts[:8]}, key=("count" if probs[0].startswith("count") else "outside-domain" if "outside the domain" in probs[0] else "step" if "power of ten" in probs[0] or "multiple of the step" in probs[0]
                       else "spacing" if "uneven" in probs[0] or "increasing" in probs[0] else "missing-multiple" if "missing" in probs[0] else "texts"))
        return
    nontriv = False
    if len(ticks) >= 3:
        h = T.measured_step(ticks)
        if h is not None:
            lo, hi = min(a, b), max(a, b)
            nontriv = abs(ticks[0] - lo) > 1e-6 * float(h) and abs(hi - ticks[-1]) > 1e-6 * float(h)
    ctx.judge(tag, HELD, {"domain": [a, b], "m": m, "ticks": ticks[:4] + (["..."] if len(ticks) > 4 else []), "texts": texts[:4]} if nontriv else case,
              nontrivial=nontriv, dig="%r|%r|%r" % (a, b, m))


def worker(ctx, shard):
    import labella.scale as S

    p = Patches()
    cnt = Counter()

    def counter(name):
        def on_call(orig, args, kwargs):
            cnt[name] += 1
            return orig(*args, **kwargs)
        return on_call

    p.wrap(S.LinearScale, "ticks", counter("LinearScale.ticks"))
    p.wrap(S.LinearScale, "tickFormat", counter("LinearScale.tickFormat"))
    rng = ctx.rng("ticks%d" % shard["sub"])
    if shard["sub"] % 4 == 3:
        import decimal

        decimal.getcontext().prec = 5
        decimal.getcontext().rounding = decimal.ROUND_DOWN
        ctx.path("process-with-lowered-decimal-precision")
    for _ in range(shard["n"]):
        a, b, m, tag = lin.gen_domain(rng)
        run_case(ctx, S, a, b, m, tag, reuse=rng.choice([None, None, None, "same-object", "copy", "ticks-then-nice", "ticks-then-nice-other-count", "copy-sibling-asked-first", "format-for-other-count-first", "ticks-held-across-nice", "float-count", "formatter-held-across-other-formats", "same-object-after-a-degenerate-domain"]))
    for k, v in cnt.items():
        ctx.event(k, v)
    p.uninstall()


def replay(ctx, witness):
    import labella.scale as S

    case = witness.get("case") or {}
    a, b = case["domain"]
    run_case(ctx, S, a, b, case.get("m"), "replay")
