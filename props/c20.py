"""C20 - per-label TeX names are unique and colour conversions agree.

Deciding monitor: H9 (vmon/mon_utils.py) - an online checker on the real
labella.utils functions that compares every observed call with the reference
models of oracles/names.py.  The driver only produces calls.
"""

import itertools
import re

from oracles import names as N
from vmon.core import HELD, INCONCLUSIVE, VIOLATED

PROPERTY_ID = "C20"
LEVEL = "exploration"
RULE = (
    "int2name(i) for every index of the swept range (enumerated); every 3-digit code over "
    "0-9a-fA-F with/without '#' (enumerated); 6-digit codes: per-byte sweeps + seeded random "
    "mixed-case codes (quick) or all 16^6 codes in lower and upper case (thorough); plus TikZ "
    "exports with up to 800 labels observed in situ. Each call is judged by the online monitor "
    "against an independent reference (bijective base-26 enumeration; doubling expansion). "
    "Non-trivial = index >= 26 (multi-letter name), or a colour code that is 3-digit or contains "
    "a letter digit; distinct = distinct index / distinct code string."
)
ASSUMPTIONS = [
    "reference models in oracles/names.py are correct (ref_name is cross-checked against itertools.product enumeration on every run)",
    "calls reach the functions through module attributes (labella.utils.*, labella.timeline.*); a zero call count makes the run inconclusive",
]


def EXHAUSTIVE(tier):
    if tier == "thorough":
        return "int2name on every index 0..10^6; all 22^3 three-digit codes; all 16^6 six-digit codes in lower and in upper case, with '#'"
    return "int2name on every index 0..10^6; all 22^3 three-digit codes with and without '#'"


def plan(tier, seed):
    shards = []
    nn = 1000001
    k = 4
    step = (nn + k - 1) // k
    for a in range(0, nn, step):
        shards.append({"kind": "names", "lo": a, "hi": min(nn, a + step)})
    shards.append({"kind": "col3"})
    if tier == "quick":
        shards.append({"kind": "col6rand", "n": 100000, "sub": 0})
        shards.append({"kind": "col6rand", "n": 100000, "sub": 1})
        shards.append({"kind": "col6bytes"})
        shards.append({"kind": "col6families", "n": 30000})
        shards.append({"kind": "insitu", "n": 10})
        shards.append({"kind": "optimized-interpreter"})
    else:
        for hi in range(16):
            for case in ("lower", "upper"):
                shards.append({"kind": "col6all", "first": hi, "case": case})
        for sub in range(10):
            shards.append({"kind": "col6rand", "n": 100000, "sub": sub})
        shards.append({"kind": "col6bytes"})
        for fam in ("decimal", "float-looking", "leading-zeros"):
            shards.append({"kind": "col6families", "n": 0, "family": fam})
        for sub in range(4):
            shards.append({"kind": "insitu", "n": 25, "sub": sub})
        shards.append({"kind": "optimized-interpreter"})
    return shards


def floors(tier):
    return {
        "evaluations": 300000,
        "strata": ["names", "col3", "col6", "insitu-tikz", "optimized-interpreter", "conversions-after-hex2rgbf"],
        "events": {"int2name": 300000, "hex2rgb": 60000, "hex2rgbstr": 60000, "hex2html": 60000},
        "distinct_nontrivial": 1000,
    }


def _drive_codes(ctx, mon, codes, stratum):
    import labella.utils as U

    n = 0
    nontriv = 0
    before = mon.n_violations
    for code in codes:
        for fn in (U.hex2rgb, U.hex2rgbstr, U.hex2html):
            try:
                fn(code)
            except Exception:
                pass  # the monitor has recorded the raise as a violation
        if n % 3 == 0:
            # history: the other public colour helper (float channels) is asked about the same colour, then the three
            # conversions again under another spelling of the same colour (seeded/C20o: a cache shared between the
            # helpers, normalised in place by hex2rgbf) - every call is judged by the monitor against its own argument
            try:
                U.hex2rgbf(code)
            except Exception:
                pass
            alt = code.swapcase() if n % 2 else (code[1:] if code.startswith("#") else "#" + code)
            for fn in (U.hex2html, U.hex2rgb, U.hex2rgbstr):
                for c2 in (alt, code):
                    try:
                        fn(c2)
                    except Exception:
                        pass
            ctx.stratum("conversions-after-hex2rgbf", generated=1, judged=1, held=1)
        n += 1
        c = code.lstrip("#")
        if len(c) == 3 or any(ch.isalpha() for ch in c):
            nontriv += 1
    bad = mon.n_violations - before
    return n, nontriv, bad


def worker(ctx, shard):
    from vmon.mon_utils import UtilsMonitor

    mon = UtilsMonitor().install()
    import labella.utils as U

    kind = shard["kind"]
    if kind == "names":
        lo, hi = shard["lo"], shard["hi"]
        # oracle self-check: arithmetic reference == constructive enumeration
        if lo == 0:
            for i, nm in zip(range(20000), N.iter_names()):
                if N.ref_name(i) != nm:
                    raise RuntimeError("oracle self-check failed at %d" % i)
        seen = set()
        rng = ctx.rng("names%d" % lo)
        # a large index first, then the ascending sweep, then indices in random and in descending order: the name of an index
        # does not depend on which indices were asked for before (every call is judged by the monitor)
        extra = [hi + 12345, 10**6 + lo, 30, 0]
        for i in extra:
            try:
                U.int2name(i)
            except Exception:
                pass
        for i in range(lo, hi):
            try:
                nm = U.int2name(i)
            except Exception:
                continue  # recorded by the monitor
            seen.add(nm)
        for i in [rng.randrange(0, hi + 5000) for _ in range(1500)] + list(range(min(hi, 800), -1, -7)):
            try:
                U.int2name(i)
            except Exception:
                pass
        n = hi - lo
        if mon.n_violations == 0:
            # injectivity re-observed directly on this shard (belt and braces)
            if len(seen) != n:
                ctx.judge("names", VIOLATED, {"range": [lo, hi]}, finding="duplicate names in range", key="dup")
            else:
                ctx.bulk_held("names", n, nontrivial_distinct=max(0, hi - max(lo, 26)))
                ctx.sample({"int2name": {str(i): U.int2name(i) for i in (lo, lo + 25, lo + 26, hi - 1)}})
        else:
            for v in mon.violations:
                ctx.judge("names", VIOLATED, {"fn": v["fn"], "arg": v["arg"]}, finding=v, key="int2name-mismatch")
            ctx.bulk_held("names", n - mon.n_violations)
    elif kind in ("col3", "col6rand", "col6bytes", "col6all", "col6families"):
        if kind == "col3":
            codes = (
                p + a + b + c
                for p in ("", "#")
                for a in N.HEXDIGITS
                for b in N.HEXDIGITS
                for c in N.HEXDIGITS
            )
            stratum = "col3"
        elif kind == "col6rand":
            rng = ctx.rng("col6rand%d" % shard.get("sub", 0))
            def gen():
                for _ in range(shard["n"]):
                    s = "".join(rng.choice(N.HEXDIGITS) for _ in range(6))
                    yield ("#" + s) if rng.random() < 0.5 else s
            codes = gen()
            stratum = "col6"
        elif kind == "col6bytes":
            def gen():
                base = ["12", "ab", "F0"]
                for pos in range(3):
                    for v in range(256):
                        for fmt in ("%02x", "%02X"):
                            parts = list(base)
                            parts[pos] = fmt % v
                            for p in ("", "#"):
                                yield p + "".join(parts)
            codes = gen()
            stratum = "col6"
        elif kind == "col6families":
            # six-digit codes that look like something else to a careless parser, with and without '#':
            # decimal-only ("123456"), float-looking ("1e1000", "12e345"), leading zeros ("000abc")
            def fam_all(fam):
                if fam == "decimal":
                    return ("%06d" % v for v in range(10 ** 6))
                if fam == "float-looking":
                    return ("%0*d%s%0*d" % (p, a, e, 5 - p, b) for p in range(1, 5) for e in "eE" for a in range(10 ** p) for b in range(0, 10 ** (5 - p), 7 if p < 3 else 1))
                return ("%s%0*x" % ("0" * z, 6 - z, v) for z in (3, 4, 5) for v in range(16 ** (6 - z)))

            if shard.get("family"):
                base = fam_all(shard["family"])
                codes = (p + c for c in base for p in ("", "#"))
            else:
                rng = ctx.rng("families")
                def gen():
                    for _ in range(shard["n"]):
                        r = rng.random()
                        if r < 0.4:
                            c = "%06d" % rng.randrange(10 ** 6)
                        elif r < 0.7:
                            p = rng.randrange(1, 5)
                            c = "%0*d%s%0*d" % (p, rng.randrange(10 ** p), rng.choice("eE"), 5 - p, rng.randrange(10 ** (5 - p)))
                        else:
                            z = rng.choice([3, 4, 5])
                            c = "0" * z + "".join(rng.choice(N.HEXDIGITS) for _ in range(6 - z))
                        yield c if rng.random() < 0.6 else "#" + c
                codes = gen()
            stratum = "col6"
        else:
            first = shard["first"]
            fmt = "#%06x" if shard["case"] == "lower" else "#%06X"
            codes = (fmt % v for v in range(first << 20, (first + 1) << 20))
            stratum = "col6"
        n, nontriv, bad = _drive_codes(ctx, mon, codes, stratum)
        for v in mon.violations:
            ctx.judge(stratum, VIOLATED, {"fn": v["fn"], "arg": v["arg"]}, finding=v, key="colour-mismatch")
        ctx.bulk_held(stratum, n - min(n, mon.n_violations), nontrivial_distinct=nontriv if not bad else 0)
        if not bad:
            ex = "#a1B" if kind == "col3" else "#7fC0de"
            ctx.sample({"code": ex, "hex2rgb": list(U.hex2rgb(ex)), "hex2rgbstr": U.hex2rgbstr(ex), "hex2html": U.hex2html(ex)})
    elif kind == "optimized-interpreter":
        _optimized(ctx)
    elif kind == "insitu":
        _insitu(ctx, mon, shard)
    for k, v in mon.calls.items():
        ctx.event(k, v)
    ctx.extra["out_of_domain_calls"] = mon.out_of_domain
    mon.uninstall()


def _optimized(ctx):
    """The same functions in a child interpreter started with -O (assert statements stripped): 3-digit codes and a seeded
    sample of 6-digit codes; the child prints the raw results, the reference judges them here."""
    import json
    import subprocess

    from vmon.core import PY, VERIF, worker_env

    rng = ctx.rng("optimized")
    codes = [p + a + b + c for p in ("", "#") for a in "0369cF" for b in "05aE" for c in "1b8D"]
    codes += [rng.choice(["", "#"]) + "".join(rng.choice(N.HEXDIGITS) for _ in range(6)) for _ in range(1500)]
    prog = ("import sys, json\nfrom labella.utils import hex2rgb, hex2rgbstr, hex2html, int2name\nout = []\n"
            "for c in json.loads(sys.stdin.read()):\n    row = [c]\n    for f in (hex2rgb, hex2rgbstr, hex2html):\n"
            "        try:\n            v = f(c)\n            row.append(list(v) if isinstance(v, tuple) else v)\n        except Exception as e:\n            row.append('EXC ' + type(e).__name__)\n"
            "    out.append(row)\nprint(json.dumps({'assert_stripped': not __debug__, 'rows': out, 'names': [int2name(i) for i in (0, 25, 26, 701, 702)]}))\n")
    p = subprocess.run([PY, "-O", "-c", prog], input=json.dumps(codes), capture_output=True, text=True, cwd=VERIF, env=worker_env(), timeout=600)
    if p.returncode != 0:
        ctx.judge("optimized-interpreter", INCONCLUSIVE, None, reason="child interpreter failed: %s" % p.stderr[-300:])
        return
    res = json.loads(p.stdout)
    if not res["assert_stripped"]:
        ctx.judge("optimized-interpreter", INCONCLUSIVE, None, reason="-O not in effect in the child")
        return
    bad = 0
    for code, a, b, c in res["rows"]:
        exp = N.ref_rgb(code)
        got = (tuple(a) if isinstance(a, list) else a, N.parse_rgbstr(b), N.parse_html(c))
        if got != (exp, exp, exp):
            bad += 1
            if bad <= 3:
                ctx.judge("optimized-interpreter", VIOLATED, {"code": code}, finding={"hex2rgb": a, "hex2rgbstr": b, "hex2html": c, "expected_rgb": list(exp), "interpreter": "python -O"}, key="colour-mismatch-under-O")
    if res["names"] != [N.ref_name(i) for i in (0, 25, 26, 701, 702)]:
        ctx.judge("optimized-interpreter", VIOLATED, None, finding={"names": res["names"]}, key="int2name-mismatch-under-O")
    if not bad:
        ctx.bulk_held("optimized-interpreter", len(res["rows"]), nontrivial_distinct=len(res["rows"]))
    ctx.event("optimized_interpreter_calls", 3 * len(res["rows"]))


_DEFCOL = re.compile(r"\\definecolor\{(dotColor|labelBgColor|labelTextColor|linkColor|borderColor)([A-Za-z]*)\}\{HTML\}\{([^}]*)\}")
_DEFTXT = re.compile(r"\\def\\text([A-Za-z]*)\{")


def _insitu(ctx, mon, shard):
    """TikZ exports with many labels: macro names per kind must be distinct."""
    from labella.scale import LinearScale
    from labella.timeline import TimelineTex

    rng = ctx.rng("insitu%d" % shard.get("sub", 0))
    sizes = [1, 2, 26, 27, 28, 52, 53, 100, 703, 800]
    for k in range(shard["n"]):
        n = sizes[k % len(sizes)] if k < len(sizes) else rng.choice([30, 60, 705, 750])
        data = [
            {"time": float(rng.randrange(0, 100000)), "width": 20 + (i % 7), "text": "L%d" % i}
            for i in range(n)
        ]
        if n >= 2 and k % 2 == 1:
            # repeated events: an equal copy of a row, and the very same dict listed twice - still one name per label
            data[n - 1] = dict(data[0])
            if n >= 4:
                data[n - 2] = data[1]
                data[2] = dict(data[0])
        palette = ["#%03x" % rng.randrange(4096) for _ in range(7)]
        opts = {
            "scale": LinearScale(),
            "direction": rng.choice(["up", "down", "left", "right"]),
            "initialWidth": 40000,
            "initialHeight": 40000,
            "dotColor": palette,
            "linkColor": lambda d: "#A0b1C2",
            "showBorder": bool(k % 2),
            "borderColor": ["#%03X" % rng.randrange(4096) for _ in range(3)] + ["#0a0b0c", "A1B2C3"],
            "labella": {"maxPos": 39000, "algorithm": "simple"},
        }
        case = {"n": n, "palette": palette, "direction": opts["direction"]}
        before = mon.n_violations
        try:
            doc = TimelineTex(data, options=opts).export()
        except RecursionError:
            ctx.judge("insitu-tikz", INCONCLUSIVE, case, reason="export hit recursion limit")
            continue
        except Exception as e:
            ctx.judge("insitu-tikz", INCONCLUSIVE, case, reason="export raised %s (C11's concern)" % type(e).__name__)
            continue
        kinds = {}
        values = {}
        for m in _DEFCOL.finditer(doc):
            kinds.setdefault(m.group(1), []).append(m.group(2))
            values.setdefault(m.group(1), []).append(N.parse_html(m.group(3)))
        texts = _DEFTXT.findall(doc)
        problems = []
        need = ["dotColor", "labelBgColor", "labelTextColor", "linkColor"] + (["borderColor"] if opts["showBorder"] else [])
        for kd in need:
            nm = kinds.get(kd, [])
            if len(nm) != n or len(set(nm)) != n or any((not x) or (not x.isalpha()) or (not x.isupper()) for x in nm):
                problems.append({"kind": kd, "count": len(nm), "distinct": len(set(nm))})
        if len(texts) != n or len(set(texts)) != n:
            problems.append({"kind": "text", "count": len(texts), "distinct": len(set(texts))})
        # colours given as a list are dealt out label by label: the TeX colours defined for the n labels are that multiset
        for kd, lst in (("dotColor", palette), ("borderColor", opts["borderColor"] if opts["showBorder"] else None)):
            if lst and len(values.get(kd, [])) == n:
                want = sorted(N.ref_rgb(lst[i % len(lst)]) for i in range(n))
                got = sorted(v if v is not None else (-1, -1, -1) for v in values[kd])
                if got != want:
                    problems.append({"kind": kd, "rule": "TeX colours of the labels are not the listed colours dealt out in turn", "distinct_defined": len(set(got)), "distinct_expected": len(set(want))})
        if mon.n_violations > before:
            problems.append({"monitor": mon.violations[-3:]})
        if problems:
            ctx.judge("insitu-tikz", VIOLATED, case, finding=problems, key="macro-names-not-distinct")
        else:
            ctx.judge("insitu-tikz", HELD, case, nontrivial=n > 26)


def replay(ctx, witness):
    from vmon.mon_utils import UtilsMonitor
    import labella.utils as U

    mon = UtilsMonitor().install()
    case = witness.get("case") or {}
    fn, arg = case.get("fn"), case.get("arg")
    if fn and arg is not None:
        try:
            getattr(U, fn)(arg)
        except Exception:
            pass
        if mon.n_violations:
            ctx.judge("replay", VIOLATED, case, finding=mon.violations[0])
        else:
            ctx.judge("replay", HELD, case)
    else:
        ctx.judge("replay", INCONCLUSIVE, case, reason="witness has no single-call form")
    mon.uninstall()
