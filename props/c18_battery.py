"""C18 battery: a deterministic (seeded, time-zone independent) list of time-scale,
calendar and export computations.  Run as a script in a process whose TZ was set
by the parent; prints one canonical line per call made at the API boundary.

    python -m props.c18_battery '<json: {"seed":..,"chunk":..,"n":..,"exports":..}>'
"""

import calendar
import hashlib
import json
import random
import sys
import time
from datetime import date, datetime, timedelta

UNITS = ("second", "minute", "hour", "day", "week", "month", "year")


def canon(x):
    if isinstance(x, datetime):
        return x.isoformat()
    if isinstance(x, float):
        return repr(x)
    if isinstance(x, (list, tuple)):
        return "[" + ",".join(canon(y) for y in x) + "]"
    if isinstance(x, bytes):
        return "sha1:" + hashlib.sha1(x).hexdigest()
    if isinstance(x, str) and len(x) > 200:
        return "sha1:" + hashlib.sha1(x.encode()).hexdigest()
    return repr(x)


def nth_sunday(y, m, n):
    """n-th Sunday of month (n=-1: last)."""
    days = [d for d in range(1, calendar.monthrange(y, m)[1] + 1) if date(y, m, d).isoweekday() == 7]
    return date(y, m, days[n - 1] if n > 0 else days[-1])


def transition_days(y):
    return [nth_sunday(y, 3, 2), nth_sunday(y, 11, 1), nth_sunday(y, 10, 1), nth_sunday(y, 4, 1), nth_sunday(y, 9, -1)]


def near_transition(t):
    for d in transition_days(t.year):
        if abs((t - datetime(d.year, d.month, d.day)).total_seconds()) <= 86400 + 4 * 3600:
            return True
    return False


def nontrivial(args):
    for a in args:
        if isinstance(a, datetime) and (a.minute or near_transition(a)):
            return True
        if isinstance(a, (list, tuple)) and nontrivial(a):
            return True
    return False


class Log(object):
    def __init__(self):
        self.n = 0

    def call(self, op, fn, *args):
        try:
            r = fn(*args)
            if hasattr(r, "__next__"):
                r = list(r)
            out = canon(r)
        except Exception as e:
            out = "EXC " + type(e).__name__
        self.n += 1
        sys.stdout.write("%s|%s|%s|%s\n" % ("N" if nontrivial(args) else "T", op, canon(list(args)), out))


def rand_instant(rng):
    r = rng.random()
    if r < 0.45:
        y = rng.randrange(2008, 2037)
        d = rng.choice(transition_days(y))
        return datetime(d.year, d.month, d.day) + timedelta(days=rng.choice([-1, 0, 0, 0, 1]), hours=rng.randrange(0, 5),
                                                            minutes=rng.choice([0, 0, 15, 30, 45, rng.randrange(60)]),
                                                            seconds=rng.choice([0, 0, rng.randrange(60)]),
                                                            milliseconds=rng.choice([0, 0, rng.randrange(1000)]))
    if r < 0.6:
        return datetime(rng.randrange(1900, 2200), rng.randrange(1, 13), rng.randrange(1, 29), rng.randrange(24), rng.choice([0, 30, 45, 15]))
    lo = datetime(1900, 1, 1)
    return lo + timedelta(milliseconds=rng.randrange(int(300 * 365.2425 * 86400000)))


def main():
    spec = json.loads(sys.argv[1])
    rng = random.Random("C18:%s:%s" % (spec["seed"], spec["chunk"]))
    # sentinel: proves which zone is in effect (excluded from the comparison)
    sys.stdout.write("SENTINEL|%s|%s|%s\n" % (time.tzname[0], time.timezone, datetime.fromtimestamp(0).isoformat()))

    from labella.d3_time import d3_time
    from labella.scale import LinearScale, TimeScale
    from labella.timeline import TimelineSVG, TimelineTex

    from vmon.budget import ensure_tick_budget

    ensure_tick_budget()
    L = Log()
    approx = {"second": 1, "minute": 60, "hour": 3600, "day": 86400, "week": 7 * 86400, "month": 30 * 86400, "year": 365 * 86400}
    for _ in range(spec["n"]):
        t = rand_instant(rng)
        for u in UNITS:
            iv = d3_time[u]
            L.call(u + ".floor", iv.floor, t)
            L.call(u + ".ceil", iv.ceil, t)
            L.call(u + ".round", iv.round, t)
        u = rng.choice(UNITS)
        iv = d3_time[u]
        try:
            b = iv.floor(t)
        except Exception:
            b = None
        if b is not None:
            L.call(u + ".offset", iv.offset, b, rng.choice([0, 1, 2, 3, 7, 30]))
        stop = t + timedelta(seconds=rng.choice([0, 1, 3, 10, 25]) * approx[u] + rng.randrange(approx[u]))
        if stop.year < 2250:
            L.call(u + ".range", iv.range, t, stop, rng.choice([1, 1, 2, 3, 5, 6, 12]))

    spans = [0.005, 0.05, 0.5, 5, 40, 300, 1800, 7200, 40000, 86400, 3 * 86400, 10 * 86400, 45 * 86400, 200 * 86400,
             900 * 86400, 4000 * 86400, 30000 * 86400]
    for _ in range(spec["n"]):
        a = rand_instant(rng)
        b = a + timedelta(seconds=rng.choice(spans) * rng.uniform(0.7, 1.5))
        b = b.replace(microsecond=b.microsecond // 1000 * 1000)
        if b.year > 2230 or a == b:
            continue
        dom = [a, b] if rng.random() < 0.8 else [b, a]
        s = TimeScale()
        s.domain(dom)
        s.range(rng.choice([[0, 360], [0, 1000], [500, -20]]))
        L.call("TimeScale.domain", s.domain)
        for f in (0, 0.25, 0.5, 1, 1.7, -0.4):
            q = a + (b - a) * f
            q = q.replace(microsecond=q.microsecond // 1000 * 1000)
            L.call("TimeScale.call", s, q)
        L.call("TimeScale.invert", s.invert, rng.uniform(0, 360))
        m = rng.choice([None, None, 2, 5, 10, 20])
        if m is None:
            L.call("TimeScale.ticks", s.ticks)
        else:
            L.call("TimeScale.ticks", s.ticks, m)
        c = s.copy()
        L.call("TimeScale.nice.domain", lambda *_a: c.nice(m).domain() if m else c.nice().domain())
        L.call("TimeScale.nice.ticks", c.ticks)

    for k in range(spec["exports"]):
        n = rng.choice([2, 3, 5, 9, 14])
        a = rand_instant(rng)
        span = rng.choice(spans[3:])
        data = []
        for i in range(n):
            t = a + timedelta(seconds=span * rng.random())
            t = t.replace(microsecond=t.microsecond // 1000 * 1000)
            if rng.random() < 0.2:
                t = datetime(t.year, t.month, t.day)
            data.append({"time": t, "width": 20 + 3 * i, "text": "L%d" % i})
        direction = rng.choice(["up", "down", "left", "right"])
        for cls in (TimelineSVG, TimelineTex):
            opts = {"scale": TimeScale(), "direction": direction, "initialWidth": 600, "initialHeight": 600, "labella": {"maxPos": 560}}
            if k % 2:
                opts["latex"] = {"reproducible": True}
            dd = [dict(d) for d in data]
            L.call(cls.__name__ + ".export", lambda *_a: cls(dd, options=opts).export(), [d["time"] for d in data], direction)
    # wall-clock values that do not exist (spring-forward gap) or exist twice (fall-back) in one of the zones:
    # naive values must pass through untouched whatever the process zone is
    for y in (2008 + (spec["chunk"] * 7) % 29, 2021):  # the DST rules encoded above hold from 2008 on
        windows = [
            (nth_sunday(y, 3, 2), 2, 0, 60),    # US Eastern gap 02:00-03:00
            (nth_sunday(y, 11, 1), 1, 0, 60),   # US Eastern repeated hour
            (nth_sunday(y, 10, 1), 2, 0, 30),   # Lord Howe gap 02:00-02:30
            (nth_sunday(y, 4, 1), 1, 30, 30),   # Lord Howe repeated half hour
            (nth_sunday(y, 9, -1), 2, 45, 60),  # Chatham gap 02:45-03:45
            (nth_sunday(y, 4, 1), 2, 45, 60),   # Chatham repeated hour
        ]
        wins = [(datetime(d.year, d.month, d.day, hh, mm), width, False) for d, hh, mm, width in windows]
        if y == 2021:
            # windows read from the system's zone data by the parent (every zone, 1900-2200; see props/c18_zones.py)
            wins = [(datetime.fromisoformat(h["start"]), h["minutes"], True) for h in spec.get("hot", [])]
        for w0, width, with_dates in wins:
            if with_dates:
                d0 = date(w0.year, w0.month, w0.day)
                days = [d0 + timedelta(days=k) for k in (-2, -1, 0, 1, 3)]
                sets = [[{"time": x, "width": 20 + 3 * i, "text": "D%d" % i} for i, x in enumerate(days)],
                        [{"time": x, "width": 20 + 3 * i, "text": "M%d" % i} for i, x in enumerate([days[2], w0 + timedelta(hours=7), days[3], w0 - timedelta(hours=30)])]]
                for data in sets:
                    for cls in (TimelineSVG, TimelineTex):
                        for own_scale in (True, False):
                            opts = {"direction": "down", "initialWidth": 900, "initialHeight": 300, "labella": {"maxPos": 860}}
                            if own_scale:
                                opts["scale"] = TimeScale()
                            dd = [dict(x) for x in data]
                            L.call(cls.__name__ + ".export.date-items", lambda *_a: cls(dd, options=opts).export(), [datetime(x["time"].year, x["time"].month, x["time"].day, 0, 1) for x in data], own_scale)
                for u in UNITS:
                    iv = d3_time[u]
                    for q in (w0, w0 + timedelta(minutes=width / 2.0), w0 + timedelta(minutes=width), w0 - timedelta(milliseconds=1)):
                        q = q.replace(microsecond=q.microsecond // 1000 * 1000)
                        L.call(u + ".floor", iv.floor, q)
                        L.call(u + ".ceil", iv.ceil, q)
                        L.call(u + ".round", iv.round, q)
                    L.call(u + ".range", iv.range, w0 - timedelta(seconds=2 * approx[u]), w0 + timedelta(seconds=2 * approx[u]), 1)
            data = []
            for i in range(5):
                t = w0 + timedelta(minutes=width * (i + 0.5) / 5.0, seconds=rng.randrange(60))
                data.append({"time": t, "width": 20 + 3 * i, "text": "G%d" % i})
            data.append({"time": w0 - timedelta(hours=3), "width": 41})
            data.append({"time": w0 + timedelta(hours=5), "width": 44})
            for cls in (TimelineSVG, TimelineTex):
                for own_scale in (True, False):
                    opts = {"direction": "up", "initialWidth": 900, "initialHeight": 300, "labella": {"maxPos": 860}}
                    if own_scale:
                        opts["scale"] = TimeScale()
                    dd = [dict(x) for x in data]
                    L.call(cls.__name__ + ".export.dst-window", lambda *_a: cls(dd, options=opts).export(), [x["time"] for x in data], own_scale)
            # derived domains whose EARLIEST (resp. latest) item lies inside the window, with another item shortly after (before)
            # its end: which item is the extreme one must not depend on how the zone orders skipped/repeated wall-clock values
            wmin = timedelta(minutes=width)
            for name, ts in (("earliest-in-window", [w0 + wmin * 0.2, w0 + wmin * 0.55, w0 + wmin * 1.15, w0 + wmin * 1.6, w0 + timedelta(hours=3)]),
                             ("latest-in-window", [w0 - timedelta(hours=3), w0 - wmin * 0.6, w0 - wmin * 0.15, w0 + wmin * 0.45, w0 + wmin * 0.8])):
                data = [{"time": t.replace(microsecond=0), "width": 20 + 3 * i, "text": "E%d" % i} for i, t in enumerate(ts)]
                for cls in (TimelineSVG, TimelineTex):
                    opts = {"direction": "right", "initialWidth": 300, "initialHeight": 900, "labella": {"maxPos": 860}}
                    dd = [dict(x) for x in data]
                    L.call(cls.__name__ + ".export." + name, lambda *_a: cls(dd, options=opts).export(), [x["time"] for x in data], name)
            s2 = TimeScale().domain([w0 - timedelta(minutes=20), w0 + timedelta(minutes=width + 20)]).range([0, 500])
            for i in range(4):
                q = w0 + timedelta(minutes=width * i / 4.0)
                L.call("TimeScale.call.dst-window", s2, q)
            L.call("TimeScale.ticks.dst-window", s2.ticks, 8)
            L.call("TimeScale.invert.dst-window", s2.invert, 250.0)
    sys.stdout.write("END|%d\n" % L.n)


if __name__ == "__main__":
    main()
