"""C02 - labels are displaced as little as possible.

Deciding monitors: H1 (Force.compute: engine options, no layer moves after its own
solve) + H2 (removeOverlap: chain order, widths, stub flags, monitor-computed
targets, final positions); oracle: oracles/layout.py (exact rational arithmetic).
"""

from props import layout_common as LC

PROPERTY_ID = "C02"
LEVEL = "exploration"
RULE = "Wlayout (see C01). One evaluation = one layer solved inside Force.compute(); the H2 hook records chain order, widths, stub flags, monitor-computed targets (data position, or the final position of the own stub one layer nearer) and final positions; the oracle computes the unique least-squares optimum by exact weighted isotonic regression (PAVA on Fractions) of target minus cumulative gaps, clipped to the bounds when the layer fits, and requires every reported position within 0.5+1e-3 of it. Layers that do not fit between both bounds are out of scope (counted). Non-trivial = optimum differs from the targets and at least one block of >=2 items was merged; distinct = distinct layer problem."
ASSUMPTIONS = [
    "targets are computed by the monitor at layer entry (data position, or the current position of the item's own stub in the nearer layer), not read from the code's targetPos",
    "separation slack 1 (integer rounding of both positions) + 1e-9; optimum/bounds tolerance 0.5 (rounding) + 1e-3 (1e10-weight soft walls)",
    "the bounds are soft walls of weight 1e10: they yield by (sum of the pulls on them)/1e10, i.e. by more than the 1e-3 granted only when labels lie millions of units outside a bound; the workload keeps labels within ~1e4 units of the bounds (positions themselves range up to 1e7 from the origin)",
]


def plan(tier, seed):
    return LC.plan(tier, seed)


def floors(tier):
    return {"evaluations": 1500, "strata": ["no-bounds", "lower-only", "both-bounds-fit", "packing-exact-fit", "deeper-layer", "half-integer-targets", "tied-targets", "near-touching", "stale-nodes"],
            "events": {"Force.compute": 1000, "layers_observed": 1500}, "distinct_nontrivial": 300}


def worker(ctx, shard):
    LC.worker(ctx, shard, PROPERTY_ID)


def replay(ctx, witness):
    LC.replay(ctx, witness, PROPERTY_ID)
