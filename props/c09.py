"""C09 - the SVG and TikZ back-ends draw the same picture.

Deciding monitors: H10 (both exports of deep-copied identical specs) + document
parsers; oracle: oracles/export.judge_c09 (field-by-field comparison of the two
Pictures, boxes and links identified per datum).
"""

from oracles import export as OX
from props import export_common as EC
from vmon.core import HELD, INCONCLUSIVE, VIOLATED
from workloads import tl as TL

PROPERTY_ID = "C09"
LEVEL = "exploration"
RULE = (
    "Wtl (all directions, scale kinds, texts) x colour options as 3-digit hex, 6-digit hex, lists and functions x showBorder on/off; both "
    "exporters receive deep-copied identical specs with a fresh scale each. One evaluation = one SVG/TikZ pair: axis line (+-1), main shift, "
    "box origins and sizes (exact strings), link curves point for point (exact strings), dots (1e-6) with colours, ticks (<1 apart, equal "
    "texts), per-datum fill/border/text/link colours as RGB triples, label texts (TikZ macro body read back). Margins are excluded. "
    "Non-trivial = pair with >= 2 layers or a non-default colour option; distinct = distinct spec."
)
ASSUMPTIONS = ["label widths explicit", "TikZ colours resolved through the \\\\definecolor macro the element names; TikZ text through the \\\\def\\\\text macro and the C19 read-back"]


def plan(tier, seed):
    k = 14 if tier == "quick" else 64
    return [{"kind": "many-labels", "n": 730 if tier == "quick" else 1500}] + [{"kind": "tl", "sub": i, "n": 150 if tier == "quick" else 1500} for i in range(k)]


def floors(tier):
    strata = list(TL.DIRECTIONS) + ["colour:list", "colour:function", "colour:3-digit", "colour:6-digit", "border", "multi-layer", "scale:linear", "scale:time", "more-than-702-labels"]
    return {"evaluations": 400, "strata": strata, "events": {"TimelineSVG.export": 400, "TimelineTex.export": 400}, "distinct_nontrivial": 100, "max_inconclusive_frac": 0.01}


def run_spec(ctx, mons, spec):
    case = {"spec": spec}
    stratum = spec["options"].get("direction", "right")
    import datetime as _dt

    today = _dt.date.today()
    rs = EC.export_one(spec, "svg", mons)
    rt = EC.export_one(spec, "tikz", mons)
    if EC.uses_time_of_day_inputs(spec) and _dt.date.today() != today:
        ctx.judge(stratum, INCONCLUSIVE, case, reason="civil date changed between the two exports (datetime.time inputs are combined with today's date)")
        return
    if rs["exc"] is not None or rt["exc"] is not None:
        if (rs["exc"] is None) != (rt["exc"] is None):
            ctx.judge(stratum, VIOLATED, case, finding={"rule": "one back-end raises, the other does not", "svg": rs["exc"], "tikz": rt["exc"]}, key="one-backend-raises")
        else:
            ctx.judge(stratum, INCONCLUSIVE, case, reason="both exports raised %s (C11)" % rs["exc"][0])
        return
    if rs["picture"] is None or rt["picture"] is None:
        ctx.judge(stratum, INCONCLUSIVE, case, reason="document not parseable: %s / %s" % (rs["parse_error"], rt["parse_error"]))
        return
    if rt["picture"].defects or rs["picture"].defects:
        ctx.judge(stratum, VIOLATED, case, finding=[{"rule": "document-defect", "svg": rs["picture"].defects[:3], "tikz": rt["picture"].defects[:3]}], key="document-defect")
        return
    geo = OX.Geo(spec)
    ms, p1 = OX.match(spec, rs["picture"], "svg", EC.data_text_fn(spec), geo)
    mt, p2 = OX.match(spec, rt["picture"], "tikz", EC.data_text_fn(spec), geo)
    probs = OX.judge_c09(spec, rs["picture"], rt["picture"], ms, mt)
    if probs:
        if probs[0]["rule"] == "cannot-identify-boxes-in-both-documents":
            probs = probs + (p1 or p2)[:1]
        ctx.judge(stratum, VIOLATED, case, finding=probs[:3], key=probs[0]["rule"])
        return
    o = spec["options"]
    cols = [o.get(c) for c in ("dotColor", "linkColor", "labelBgColor", "labelTextColor", "borderColor") if c in o]
    multi = (rs.get("n_layers") or 1) > 1
    ctx.judge(stratum, HELD, case if (len(ctx.samples) < 2 and len(spec["data"]) <= 3) else None, nontrivial=multi or bool(cols), dig=repr(spec))
    for c in cols:
        if isinstance(c, list):
            ctx.stratum("colour:list", generated=1, judged=1, held=1)
        elif isinstance(c, dict):
            ctx.stratum("colour:function", generated=1, judged=1, held=1)
        elif len(c.lstrip("#")) == 3:
            ctx.stratum("colour:3-digit", generated=1, judged=1, held=1)
        else:
            ctx.stratum("colour:6-digit", generated=1, judged=1, held=1)
    if o.get("showBorder"):
        ctx.stratum("border", generated=1, judged=1, held=1)
    if multi:
        ctx.stratum("multi-layer", generated=1, judged=1, held=1)
    ctx.stratum("scale:" + ("linear" if o.get("scale") == "linear" else "time"), generated=1, judged=1, held=1)


def worker(ctx, shard):
    mons = EC.Monitors()
    if shard["kind"] == "tl":
        rng = ctx.rng("tl%d" % shard["sub"])
        for _ in range(shard["n"]):
            if ctx.should_stop():
                break
            run_spec(ctx, mons, TL.gen_spec(rng))
    elif shard["kind"] == "many-labels":
        # more labels than two-letter TikZ macro names (26 + 26*26 = 702): per-datum colours and texts must still agree
        rng = ctx.rng("many-labels")
        n = shard["n"]
        data = [{"time": float(40 * i + rng.randrange(0, 30)), "width": 20 + 0.01 * i, "uid": i, "text": "L%d" % i} for i in range(n)]
        rng.shuffle(data)
        spec = {"data": data, "options": {"direction": rng.choice(TL.DIRECTIONS), "scale": "linear", "initialWidth": 40 * n + 100, "initialHeight": 40 * n + 100,
                                          "margin": {"left": 20, "right": 20, "top": 20, "bottom": 20}, "labella": {"algorithm": "none", "maxPos": 40 * n},
                                          "dotColor": {"fn": "by_uid6"}, "labelBgColor": {"fn": "by_uid3"}, "linkColor": list(TL.PALETTE6), "showBorder": True,
                                          "borderColor": {"fn": "by_parity"}}}
        run_spec(ctx, mons, spec)
        ctx.stratum("more-than-702-labels", generated=1, judged=1, held=1)
    elif shard["kind"] == "replay-case":
        run_spec(ctx, mons, shard["case"]["spec"])
    mons.events(ctx)
    mons.uninstall()


def replay(ctx, witness):
    worker(ctx, {"kind": "replay-case", "case": witness.get("case") or {}})
