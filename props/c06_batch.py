"""C06 helper, run as a script in a FRESH process (the parent sets PYTHONHASHSEED):
computes a seeded batch of layouts and prints one canonical line per layout.

    python -m props.c06_batch '<json: {"seed":.., "n":..}>'
"""
import json
import random
import sys


def main():
    spec = json.loads(sys.argv[1])
    from vmon.core import assert_repo_under_test

    assert_repo_under_test()
    from labella.force import Force
    from workloads import layout as WL

    rng = random.Random("C06-batch:%s" % spec["seed"])
    sys.stdout.write("HASHSEED|%s|%s\n" % (sys.flags.hash_randomization, hash("labella")))
    for i in range(spec["n"]):
        labels, opts, tag = WL.gen_case(rng, max_n=60)
        f = Force(dict(opts))
        nodes = WL.make_nodes(labels)
        f.nodes(nodes)
        try:
            f.compute()
            out = repr([(n.layerIndex, n.currentPos) for n in nodes])
        except Exception as e:
            out = "EXC " + type(e).__name__
        sys.stdout.write("%d|%s|%s\n" % (i, tag, out))
    sys.stdout.write("END\n")


if __name__ == "__main__":
    main()
