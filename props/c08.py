"""C08 - drawn label boxes are pairwise disjoint and sit on the chosen side of the axis.

Deciding monitors: H10 (export boundary) + H1 (layer index of every label, in situ) +
document parsers; oracle: oracles/export.judge_c08 on the parsed rectangles.
"""

from oracles import export as OX
from props import export_common as EC
from vmon.core import HELD, INCONCLUSIVE, VIOLATED
from workloads import tl as TL

PROPERTY_ID = "C08"
LEVEL = "exploration"
RULE = (
    "Wtl restricted to label spacing >= 3 (or default) and layer gap >= 1, with extra weight on dense clusters and ties (neighbouring boxes "
    "at minimum distance), half-integer widths (origins at .5: truncation bites) and absent lower bound (negative origins); all four "
    "directions; both back-ends judged separately. One evaluation = one exported document: rectangles parsed from label-g/rect (SVG) or "
    "shift/rectangle (TikZ) must be pairwise disjoint (open rectangles), on the side named by direction at distance >= layerGap-1, and "
    "farther layers wholly beyond nearer ones (layer of each box from the H1 hook). Non-trivial = export with >= 2 boxes of one layer "
    "closer than 3 units or with >= 2 layers; distinct = distinct (spec, back-end)."
)
ASSUMPTIONS = ["no tolerance beyond the statement (coordinates as printed)", "label widths explicit"]


def plan(tier, seed):
    k = 14 if tier == "quick" else 64
    return [{"kind": "tl", "sub": i, "n": 150 if tier == "quick" else 1500} for i in range(k)]


def floors(tier):
    strata = ["%s/%s" % (b, d) for b in ("svg", "tikz") for d in TL.DIRECTIONS] + ["multi-layer", "neighbours-closer-than-3", "negative-origin", "half-integer-width", "multi-layer-nothing-displaced"]
    return {"evaluations": 600, "strata": strata, "events": {"TimelineSVG.export": 300, "TimelineTex.export": 300, "Force.compute": 600}, "distinct_nontrivial": 100,
            "max_inconclusive_frac": 0.01}


def gen(rng):
    if rng.random() < 0.1:
        return TL.gen_spec(rng, c08=True, identity=True)
    if rng.random() < 0.06:
        # sideways timeline, narrow texted labels among text-less ones, a small layer gap, enough crowding for a second layer
        n = rng.choice([6, 8, 10])
        spec = TL.gen_spec(rng, c08=True, n=n, direction=rng.choice(["left", "right"]), scale_kind="linear", identity=False, text_classes=["ascii"])
        base = rng.choice([8, 9, 10])
        for i, d in enumerate(spec["data"]):
            d["width"] = base + 0.25 * i
            d["time"] = float(100 + 3 * i)
            if i % 2:
                d.pop("text", None)
        o = spec["options"]
        o["layerGap"] = rng.choice([1, 2, 5])
        o.pop("domain", None)
        o.pop("textFn", None)
        o.pop("timeFn", None)
        o["labella"] = {"maxPos": 60, "density": 0.5, "nodeSpacing": 3}
        return spec
    spec = TL.gen_spec(rng, c08=True, n=rng.choice([2, 3, 5, 8, 12, 20, 40]), identity=False)
    o = spec["options"]
    lab = o.setdefault("labella", {})
    if "nodeSpacing" in lab and lab["nodeSpacing"] < 3:
        lab["nodeSpacing"] = 3
    if rng.random() < 0.5:
        # squeeze the data into a dense cluster (same kind of time values)
        ts = [d["time"] for d in spec["data"]]
        t0 = ts[0]
        for i, d in enumerate(spec["data"]):
            if isinstance(t0, float):
                d["time"] = t0 + (i % 3) * 0.001 * abs(t0 or 1.0)
            elif rng.random() < 0.7:
                d["time"] = ts[i % 2]
            if "when" in d:
                d["when"] = d["time"]
    if rng.random() < 0.3:
        lab["minPos"] = None
    return spec


def run_spec(ctx, mons, spec):
    for kind in ("svg", "tikz"):
        case = {"spec": spec, "backend": kind}
        res = EC.export_one(spec, kind, mons)
        stratum = "%s/%s" % (kind, spec["options"].get("direction", "right"))
        if res["exc"] is not None:
            ctx.judge(stratum, INCONCLUSIVE, case, reason="export raised %s (C11)" % res["exc"][0])
            continue
        if res["picture"] is None:
            ctx.judge(stratum, INCONCLUSIVE, case, reason="document not parseable: %s" % res["parse_error"])
            continue
        P = res["picture"]
        geo = OX.Geo(spec)
        by_uid, _ = OX.match(spec, P, kind, EC.data_text_fn(spec), geo)
        probs = OX.judge_c08(spec, P, by_uid, res.get("labels"))
        if probs:
            ctx.judge(stratum, VIOLATED, case, finding=probs[:2], key=probs[0]["rule"])
            continue
        close = False
        rs = sorted((b["origin"][0 if geo.horizontal else 1], b["origin"][0 if geo.horizontal else 1] + (b["w"] if geo.horizontal else b["h"]), b["origin"][1 if geo.horizontal else 0]) for b in P.boxes)
        for a, b in zip(rs, rs[1:]):
            if a[2] == b[2] and b[0] - a[1] < 3:
                close = True
        multi = (res.get("n_layers") or 1) > 1
        ctx.judge(stratum, HELD, case if (len(ctx.samples) < 2 and len(spec["data"]) <= 3) else None, nontrivial=close or multi, dig=kind + repr(spec))
        if multi:
            ctx.stratum("multi-layer", generated=1, judged=1, held=1)
            if res.get("moved") is False:
                ctx.stratum("multi-layer-nothing-displaced", generated=1, judged=1, held=1)
        if close:
            ctx.stratum("neighbours-closer-than-3", generated=1, judged=1, held=1)
        if any(b["origin"][0] < 0 and b["origin"][1] < 0 or (geo.horizontal and b["origin"][0] < 0) or (not geo.horizontal and b["origin"][1] < 0) for b in P.boxes):
            ctx.stratum("negative-origin", generated=1, judged=1, held=1)
        if any(float(d["width"]) != int(d["width"]) for d in spec["data"]):
            ctx.stratum("half-integer-width", generated=1, judged=1, held=1)


def worker(ctx, shard):
    mons = EC.Monitors(tex=False, utils=False)
    if shard["kind"] == "tl":
        rng = ctx.rng("tl%d" % shard["sub"])
        for _ in range(shard["n"]):
            if ctx.should_stop():
                break
            run_spec(ctx, mons, gen(rng))
    elif shard["kind"] == "replay-case":
        run_spec(ctx, mons, shard["case"]["spec"])
    mons.events(ctx)
    mons.uninstall()


def replay(ctx, witness):
    worker(ctx, {"kind": "replay-case", "case": witness.get("case") or {}})
