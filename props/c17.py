"""C17 - calendar intervals round instants correctly.

Deciding monitor: H7 (vmon/mon_time.py) - online checker on the real
d3_time_interval.floor/ceil/round/offset/range (all seven units) against the
reference calendar of oracles/calendar.py.
"""

from datetime import datetime, timedelta

from oracles import calendar as C
from vmon.core import HELD, INCONCLUSIVE, VIOLATED

PROPERTY_ID = "C17"
LEVEL = "exploration"
RULE = (
    "floor/ceil/round of every unit on every day 1900-01-01..2199-12-31 at 00:00, 12:00 and 23:59:59.999 (enumerated); "
    "every hour (and hh:30:00.500) of 1900, 1999, 2000, 2024, 2100; seeded random ms instants; offset(boundary,k) for k in 0..400 "
    "from random and month-end/leap-day/year-end boundaries; range(start,stop,step) with step 1..12 over windows of 0..40 units. "
    "Every call (incl. the nested ones the library makes itself) is judged online against datetime/timedelta/calendar arithmetic. "
    "Non-trivial = instant that is not itself a boundary of the unit, offset with k>=1, or range returning >=2 instants; "
    "distinct = distinct (unit, op, arguments)."
)
ASSUMPTIONS = [
    "process time zone is UTC for this check (time-zone independence is C18's claim)",
    "week ranges with step > 1 are judged only as an increasing subsequence of the Sunday boundaries (the property defines no week number)",
]


def EXHAUSTIVE(tier):
    return "floor/ceil/round of all 7 units on every day 1900-01-01..2199-12-31 at 00:00:00.000, 12:00:00.000 and 23:59:59.999"


def plan(tier, seed):
    shards = []
    years = list(range(1900, 2200))
    k = 15
    per = (len(years) + k - 1) // k
    for i in range(0, len(years), per):
        shards.append({"kind": "days", "y0": years[i], "y1": min(2200, years[i] + per)})
    for y in (1900, 1999, 2000, 2024, 2100):
        shards.append({"kind": "hours", "year": y})
    nr = 4 if tier == "quick" else 32
    for sub in range(nr):
        shards.append({"kind": "random", "sub": sub, "n": 20000 if tier == "quick" else 100000})
    for sub in range(2 if tier == "quick" else 16):
        shards.append({"kind": "offset", "sub": sub, "nb": 12 if tier == "quick" else 40})
    for sub in range(4 if tier == "quick" else 32):
        shards.append({"kind": "range", "sub": sub, "n": 1500 if tier == "quick" else 8000})
    # windows holding more than a million boundaries (a list of that length is an ordinary result)
    shards.append({"kind": "long-range", "unit": "second", "days": 12.5, "step": 1})
    shards.append({"kind": "long-range", "unit": "minute", "days": 2.1 * 365, "step": 7})
    if tier != "quick":
        shards.append({"kind": "long-range", "unit": "hour", "days": 120 * 365.25, "step": 1})
        shards.append({"kind": "long-range", "unit": "second", "days": 40, "step": 30})
        shards.append({"kind": "long-range", "unit": "day", "days": 299 * 365.25, "step": 1})
    shards.append({"kind": "repo-tests", "part": "calendar"})
    shards.append({"kind": "insitu-exports", "n": 150 if tier == "quick" else 2000})
    return shards


def floors(tier):
    ev = {}
    for u in C.UNITS:
        for op in ("floor", "ceil", "round"):
            ev["%s.%s" % (u, op)] = 100000
        ev["%s.offset" % u] = 300
        ev["%s.range" % u] = 150
    return {"evaluations": 2000000, "strata": ["days", "hours", "random", "offset", "range", "long-range"], "events": ev, "distinct_nontrivial": 100000}


def _flush(ctx, mon, stratum, v0, nontrivial):
    n = sum(mon.calls.values()) - ctx.extra.get("_counted", 0)
    ctx.extra["_counted"] = sum(mon.calls.values())
    nv = mon.n_violations - v0
    for v in mon.violations[len(mon.violations) - min(nv, len(mon.violations)):] if nv else []:
        ctx.judge(stratum, VIOLATED, {"unit": v["unit"], "op": v["op"], "args": v["args"]}, finding=v,
                  key="%s.%s" % (v["unit"], v["op"]))
    extra = nv - min(nv, len(mon.violations))
    if extra > 0:
        ctx.evaluations += extra
        ctx.verdicts[VIOLATED] += extra
        ctx.n_violations += extra
    ctx.bulk_held(stratum, max(0, n - nv), nontrivial_distinct=0 if nv else nontrivial)


def _call(f, *a):
    try:
        return f(*a)
    except Exception:
        return None


def worker(ctx, shard):
    from vmon.mon_time import CalendarMonitor

    mon = CalendarMonitor(keep=40).install()
    import labella.d3_time as D

    iv = {u: D.d3_time[u] for u in C.UNITS}
    kind = shard["kind"]
    v0 = mon.n_violations
    nontriv = 0
    if kind == "days":
        d = datetime(shard["y0"], 1, 1)
        end = datetime(shard["y1"], 1, 1)
        one = timedelta(days=1)
        offs = (timedelta(0), timedelta(hours=12), timedelta(hours=23, minutes=59, seconds=59, milliseconds=999))
        while d < end:
            for o in offs:
                t = d + o
                for u in C.UNITS:
                    i = iv[u]
                    _call(i.floor, t)
                    _call(i.ceil, t)
                    _call(i.round, t)
                    if not C.is_boundary(u, t):
                        nontriv += 3
            d += one
        _flush(ctx, mon, "days", v0, nontriv)
        if shard["y0"] == 1900 and mon.n_violations == v0:
            t = datetime(1900, 2, 28, 23, 59, 59, 999000)
            ctx.sample({"t": t.isoformat(), "ceil": {u: iv[u].ceil(t).isoformat() for u in C.UNITS}})
    elif kind == "hours":
        t = datetime(shard["year"], 1, 1)
        end = datetime(shard["year"] + 1, 1, 1)
        h = timedelta(hours=1)
        half = timedelta(minutes=30, milliseconds=500)
        while t < end:
            for tt in (t, t + half):
                for u in C.UNITS:
                    i = iv[u]
                    _call(i.floor, tt)
                    _call(i.ceil, tt)
                    _call(i.round, tt)
                    if not C.is_boundary(u, tt):
                        nontriv += 3
            t += h
        _flush(ctx, mon, "hours", v0, nontriv)
    elif kind == "random":
        rng = ctx.rng("random%d" % shard["sub"])
        span_ms = int((C.HI - C.LO).total_seconds() * 1000) - 1
        seen = set()
        for _ in range(shard["n"]):
            r = rng.random()
            if r < 0.6:
                t = C.LO + timedelta(milliseconds=rng.randrange(span_ms))
            elif r < 0.8:  # within 2 s of a month boundary
                y, m = rng.randrange(1900, 2200), rng.randrange(1, 13)
                t = datetime(y, m, 1) + timedelta(milliseconds=rng.randrange(-2000, 2000))
                t = max(t, C.LO)
            elif r < 0.88:  # the last / first millisecond of a unit (not only 23:59:59.999)
                u = rng.choice(C.UNITS)
                b = C.floor(u, C.LO + timedelta(milliseconds=rng.randrange(span_ms)))
                t = C.step(u, b, 1) + timedelta(milliseconds=rng.choice([-1, -1, 0, 1]))
                if not C.in_domain(t):
                    continue
            else:  # within a ms of a tie for round()
                u = rng.choice(C.UNITS)
                b = C.floor(u, C.LO + timedelta(milliseconds=rng.randrange(span_ms)))
                nb = C.step(u, b, 1)
                mid = b + (nb - b) / 2
                t = mid + timedelta(milliseconds=rng.choice([-1, 0, 0, 1]))
                t = t.replace(microsecond=t.microsecond // 1000 * 1000)
                if not C.in_domain(t):
                    continue
            if t in seen:
                continue
            seen.add(t)
            if rng.random() < 0.04:
                from workloads.timedom import as_sub

                t = as_sub(t)  # an instance of a datetime subclass (as pandas.Timestamp is) is an instant like any other
                ctx.path("datetime-subclass-instants")
            for u in C.UNITS:
                i = iv[u]
                _call(i.floor, t)
                _call(i.ceil, t)
                _call(i.round, t)
                if not C.is_boundary(u, t):
                    nontriv += 3
        _flush(ctx, mon, "random", v0, nontriv)
    elif kind == "offset":
        rng = ctx.rng("offset%d" % shard["sub"])
        span_ms = int((C.HI - C.LO).total_seconds() * 1000) - 1
        specials = [datetime(2020, 1, 31), datetime(2019, 1, 29), datetime(2020, 2, 28), datetime(2020, 2, 29), datetime(1999, 12, 31),
                    datetime(2021, 3, 31), datetime(2021, 5, 31), datetime(2021, 8, 30), datetime(2021, 10, 31), datetime(2100, 2, 28),
                    datetime(2000, 2, 29), datetime(1900, 1, 1), datetime(2023, 12, 1), datetime(2023, 11, 30)]
        seen = set()
        for u in C.UNITS:
            bases = [C.floor(u, s) for s in specials[shard["sub"] % 2::2]]
            for _ in range(shard["nb"]):
                bases.append(C.floor(u, C.LO + timedelta(milliseconds=rng.randrange(span_ms))))
            for b in bases:
                if (u, b) in seen:
                    continue
                seen.add((u, b))
                for k in range(0, 401):
                    if C.step(u, b, k) >= C.HI:
                        break
                    _call(iv[u].offset, b, k)
                    if k:
                        nontriv += 1
        _flush(ctx, mon, "offset", v0, nontriv)
        if mon.n_violations == v0:
            ctx.sample({"offset": "day", "from": "2020-01-31", "k": 1, "result": _call(iv["day"].offset, datetime(2020, 1, 31), 1).isoformat()})
    elif kind == "range":
        rng = ctx.rng("range%d" % shard["sub"])
        span_ms = int((C.HI - C.LO).total_seconds() * 1000) - 1
        approx = {"second": 1000, "minute": 60000, "hour": 3600000, "day": 86400000, "week": 7 * 86400000,
                  "month": 30 * 86400000, "year": 365 * 86400000}
        seen = set()
        for _ in range(shard["n"]):
            u = rng.choice(C.UNITS)
            r = rng.random()
            if r < 0.5:
                start = C.LO + timedelta(milliseconds=rng.randrange(span_ms))
            elif r < 0.75:  # start on/near a boundary
                start = C.floor(u, C.LO + timedelta(milliseconds=rng.randrange(span_ms))) + timedelta(milliseconds=rng.choice([0, 0, 1, -1]))
            else:  # near the end of a month
                y, m = rng.randrange(1900, 2199), rng.randrange(1, 13)
                start = datetime(y, m, C.days_in_month(y, m)) - timedelta(days=rng.randrange(0, 3)) + timedelta(milliseconds=rng.randrange(0, 86400000))
            width = rng.choice([0, 1, 2, 3, 5, 10, 20, 40]) * approx[u] + rng.randrange(0, approx[u])
            if rng.random() < 0.1:
                width = 0
            elif rng.random() < 0.05:
                width = -width  # stop before start: the half-open window is empty
            stop = start + timedelta(milliseconds=width)
            if not (C.in_domain(start) and C.in_domain(stop)):
                continue
            k = rng.choice([1, 1, 1, 2, 3, 4, 5, 6, 7, 8, 9, 10, 11, 12])
            if rng.random() < 0.15:
                k = float(k)
            key = (u, start, stop, k)
            if key in seen:
                continue
            seen.add(key)
            got = _call(iv[u].range, start, stop, k)
            plural = D.d3_time.get(u + "s")
            if plural is not None and rng.random() < 0.1 and isinstance(k, int):
                # the plural entry points (d3_time["hours"], ...) enumerate the same range; they may be bound before any hook
                # is installed, so the driver compares their result with the singular call itself
                got2 = _call(plural, start, stop, k)
                ctx.path("plural-entry-points")
                if got is not None and got2 != got:
                    ctx.judge("range", VIOLATED, {"unit": u, "start": start, "stop": stop, "step": k},
                              finding={"plural_entry_point": u + "s", "got": [t.isoformat() for t in (got2 or [])][:5], "singular_range": [t.isoformat() for t in got][:5]}, key=u + "s.range")
            if got is not None and len(got) >= 2:
                nontriv += 1
                if rng.random() < 0.15 and isinstance(got, list):
                    # the caller changes the list it received and asks the same question again (the second call is judged)
                    got.reverse()
                    got.pop()
                    _call(iv[u].range, start, stop, k)
                    ctx.path("range-result-mutated-then-asked-again")
        _flush(ctx, mon, "range", v0, nontriv)
    if kind == "long-range":
        rng = ctx.rng("long-range" + shard["unit"])
        start = datetime(rng.choice([1901, 1969, 2000, 2038]), rng.randrange(1, 13), rng.randrange(1, 28), rng.randrange(24), rng.randrange(60), rng.randrange(60), 1000 * rng.randrange(1000))
        stop = start + timedelta(days=shard["days"])
        got = _call(iv[shard["unit"]].range, start, stop, shard["step"])
        if got is not None:
            ctx.event("long_range_boundaries_before_step_filter", int(shard["days"] * 86400 / {"second": 1, "minute": 60, "hour": 3600, "day": 86400}[shard["unit"]]))
        _flush(ctx, mon, "long-range", v0, 1)
    if kind == "repo-tests":
        from props import workload_r

        workload_r.judge(ctx, shard["part"])
    if kind == "insitu-exports":
        from props import export_common as EC

        EC.insitu_exports(ctx, mon, lambda: sum(mon.calls.values()), shard["n"], scale_kind="time")
    for (u, op), n in mon.calls.items():
        ctx.event("%s.%s" % (u, op), n)
    ctx.event("direct_calls", mon.direct)
    ctx.event("nested_calls", mon.nested)
    ctx.extra.pop("_counted", None)
    ctx.extra["out_of_scope_calls"] = mon.out_of_scope
    mon.uninstall()


def replay(ctx, witness):
    from vmon.mon_time import CalendarMonitor

    mon = CalendarMonitor().install()
    import labella.d3_time as D

    case = witness.get("case") or {}
    try:
        args = [datetime.fromisoformat(a) if isinstance(a, str) else a for a in case["args"]]
        _call(getattr(D.d3_time[case["unit"]], case["op"]), *args)
    except Exception as e:
        ctx.judge("replay", INCONCLUSIVE, case, reason="cannot rebuild call: %r" % e)
        return
    if mon.n_violations:
        ctx.judge("replay", VIOLATED, case, finding=mon.violations[0])
    elif sum(mon.calls.values()):
        ctx.judge("replay", HELD, case)
    else:
        ctx.judge("replay", INCONCLUSIVE, case, reason="call not judged")
    mon.uninstall()
