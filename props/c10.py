"""C10 - a timeline's export depends only on its own data and options.

Deciding monitors: H10 (option-state digests of every other live timeline around
every construct/export) inside the history process, and an offline comparison of
every exported document with the reference produced by a FRESH process that
constructs and exports only that spec.
"""

import subprocess

from vmon.core import HELD, INCONCLUSIVE, PY, VERIF, VIOLATED, digest, jdumps, jloads, worker_env
from workloads import tl as TL

PROPERTY_ID = "C10"
LEVEL = "exploration"
RULE = (
    "seeded histories of construct/export operations over 2-4 timelines (SVG and TikZ mixed; each timeline has its own deep-copied spec, except "
    "that ~30% are given the very data dict objects of an earlier timeline together with their own options (another direction); at "
    "least half omit the scale and/or the labella options and so rely on the library defaults; others pass their own scale), always with an "
    "export after a later construction and a repeated export; one fresh process per history. One evaluation = one export in a history: "
    "its bytes must equal the reference exported alone in a fresh process, repeated exports must be identical, and no operation may change "
    "the option state reachable from another live timeline. Non-trivial = export of a default-scale timeline after another default-scale "
    "timeline with different data was constructed; distinct = distinct (history, operation)."
)
ASSUMPTIONS = ["datetime.time inputs (combined with today's date) are excluded", "label widths explicit", "references are cached per (spec, back-end) within a shard"]


def plan(tier, seed):
    k = 16 if tier == "quick" else 64
    return [{"kind": "hist", "sub": i, "n": 6 if tier == "quick" else 40} for i in range(k)]


def floors(tier):
    return {"evaluations": 100, "strata": ["default-scale/svg", "default-scale/tikz", "own-scale/svg", "own-scale/tikz", "repeated-export", "shared-data-objects", "value-equal-twin", "several-timelines-without-options", "shared-options-object", "after-a-failing-construction", "after-a-failed-export-to-file", "repeated-export-with-palettes-and-textless-data"],
            "events": {"history_processes": 30, "reference_processes": 60, "noninterference": 100}, "distinct_nontrivial": 30, "max_inconclusive_frac": 0.05}


def gen_history(rng):
    nt = rng.choice([2, 2, 3, 4])
    specs, backends = [], []
    bare = rng.random() < 0.12  # a history in which every timeline is built as Timeline(data): options omitted or None
    for k in range(nt):
        default = bare or rng.random() < 0.65
        while True:
            s = TL.gen_spec(rng, scale_kind="default" if default else rng.choice(["time", "linear"]), n=rng.choice([1, 2, 3, 5, 8]))
            import datetime as dt

            if not any(isinstance(TL.datum_time(s, d), dt.time) for d in s["data"]):
                break
        if default:
            s["options"].pop("scale", None)
            if rng.random() < 0.6:
                s["options"].pop("labella", None)
            if bare:
                s["options"] = None
            elif rng.random() < 0.15:
                s["options"] = rng.choice([None, {}, {"direction": s["options"].get("direction", "right")}])
        specs.append(s)
        backends.append(rng.choice(["svg", "tikz"]))
    if nt >= 2 and rng.random() < 0.15:
        # two default-scale timelines whose spans select neighbouring rows of the tick table's year end: decades first, a few
        # years afterwards (whatever the first one leaves in shared tables shows in the second)
        import datetime as dt

        def dated(k, years):
            s0 = TL.gen_spec(rng, scale_kind="default", n=rng.choice([3, 5, 8]))
            y0 = rng.randrange(1950, 2000)
            n0 = len(s0["data"])
            for i, d in enumerate(s0["data"]):
                d["time"] = dt.date(y0, 1, 1) + dt.timedelta(days=int(365.25 * years * i / max(1, n0 - 1)) + rng.randrange(0, 20))
                d.pop("when", None)
            o = s0["options"]
            for key in ("scale", "domain", "timeFn"):
                o.pop(key, None)
            specs[k] = s0

        dated(0, rng.choice([25, 40, 80, 150]))
        dated(1, rng.choice([5, 6, 7, 9]))
    if rng.random() < 0.2 and specs[0]["options"] is not None and len(specs[0]["data"]) >= 3:
        # list-valued colour options (palettes indexed by the datum's position) on a timeline where some data have no text,
        # among them the first in input order and the earliest: the text colour is then asked for a *subsequence* of the
        # indices that never contains 0 (seeded/C10o: a palette walker that restarts only at index 0 carries its position
        # over to the next export of the same timeline)
        o0, d0 = specs[0]["options"], specs[0]["data"]
        for cname in ("dotColor", "linkColor", "labelBgColor", "labelTextColor"):
            o0[cname] = list(TL.PALETTE6[: rng.choice([2, 3, 7])]) if rng.random() < 0.6 else list(TL.PALETTE3)
        try:
            earliest = min(range(len(d0)), key=lambda i: TL.normalise_time(d0[i]["time"]))
        except Exception:
            earliest = 0
        for i in {0, earliest, rng.randrange(len(d0))}:
            d0[i].pop("text", None)
        others = [i for i in range(len(d0)) if "text" not in d0[i] and i not in (0, earliest)]
        for i in range(len(d0)):
            if i not in (0, earliest) and (i not in others or rng.random() < 0.5):
                d0[i].setdefault("text", "P%d" % i)
        palette_textless = True
    else:
        palette_textless = False
    # some timelines are given the very data objects of an earlier one (same values, own options: another direction/back-end)
    share = {}
    twins = []
    import copy

    for k in range(1, nt):
        if rng.random() < 0.3:
            j = rng.randrange(k)
            if j in share:
                continue
            s = copy.deepcopy(specs[j])
            if s["options"] is not None:
                s["options"]["direction"] = rng.choice([d for d in TL.DIRECTIONS if d != s["options"].get("direction", "right")])
                if rng.random() < 0.5:
                    s["options"]["layerGap"] = rng.choice([20, 45])
            specs[k] = s
            share[str(k)] = j
    # the caller re-uses ONE options dict object (plain values, no scale object in it) for two timelines with their own data
    share_options = {}
    for k in range(1, nt):
        if str(k) not in share and k not in share.values() and rng.random() < 0.35:
            j = rng.randrange(k)
            oj = specs[j]["options"]
            if oj is None or "scale" in oj or specs[k]["options"] is None or "scale" in specs[k]["options"] or str(j) in share_options:
                continue
            if any(isinstance(v, dict) and "fn" in v for v in oj.values()) or "domain" in oj:
                continue  # functions / domains are tied to j's own data
            kinds = lambda sp: set(type(d["time"]).__name__ in ("int", "float") for d in sp["data"])
            if kinds(specs[j]) != kinds(specs[k]):
                continue
            specs[k]["options"] = copy.deepcopy(oj)
            share_options[str(k)] = j
    # twins: equal geometry, texts and options, but built from their own datum dicts, which differ in the field the colour
    # functions read (whatever is remembered by VALUE of the geometry must not carry another timeline's data)
    for k in range(1, nt):
        if str(k) not in share and k not in share.values() and str(k) not in share_options and k not in share_options.values() and rng.random() < 0.25:
            j = rng.randrange(k)
            if str(j) in share or str(j) in share_options or j in share_options.values():
                continue
            s = copy.deepcopy(specs[j])
            if s["options"] is None:
                continue
            for d in s["data"]:
                d["uid"] = d["uid"] + rng.choice([1, 3, 7])
            if rng.random() < 0.5:
                # the twin's numbers are the same numbers in the other numeric type (50 <-> 50.0)
                flip = lambda v: float(v) if isinstance(v, int) and not isinstance(v, bool) else (int(v) if isinstance(v, float) and v == int(v) else v)
                for d in s["data"]:
                    d["width"] = flip(d["width"])
                for key in ("labelPadding", "margin"):
                    if isinstance(s["options"].get(key), dict):
                        s["options"][key] = {k2: flip(v2) for k2, v2 in s["options"][key].items()}
                if "layerGap" in s["options"]:
                    s["options"]["layerGap"] = flip(s["options"]["layerGap"])
            for cname in rng.sample(["dotColor", "linkColor", "labelBgColor", "labelTextColor"], 2):
                fnname = rng.choice(["by_uid6", "by_uid3", "by_parity"])
                s["options"][cname] = {"fn": fnname}
                if specs[j]["options"] is not None:
                    specs[j]["options"][cname] = {"fn": fnname}
            specs[k] = s
            backends[k] = backends[j]
            twins.append(k)
    # operations: every timeline constructed once; exports interleaved; at least one export after a later
    # construction and one repeated export
    ops = [["new", 0], ["new", 1], ["export", 0], ["export", 0], ["export", 1]]
    for k in range(2, nt):
        ops.insert(rng.randrange(2, len(ops) + 1), ["new", k])
        ops.append(["export", k])
    ops.append(["export", 0])
    if rng.random() < 0.5:
        ops.append(["export", rng.randrange(nt)])
    if rng.random() < 0.3:
        # after its first export a timeline is exported to a file in a way that fails late; it is exported again afterwards
        k = rng.randrange(nt)
        first = next(i for i, op in enumerate(ops) if op == ["export", k])
        ops.insert(first + 1, ["export-to-file-failing", k])
        ops.append(["export", k])
    if rng.random() < 0.25:
        ops.insert(rng.randrange(1, len(ops)), ["failing", rng.randrange(2)])  # a failing construction somewhere in between
    return {"specs": specs, "backends": backends, "ops": ops, "share_data": share, "twins": twins, "share_options": share_options,
            "palette_textless": palette_textless and isinstance((specs[0]["options"] or {}).get("labelTextColor"), list)}


def run_proc(h, timeout=600, hashseed="0"):
    env = worker_env()
    env["PYTHONHASHSEED"] = hashseed
    p = subprocess.run([PY, "-m", "props.c10_history", jdumps(h)], cwd=VERIF, env=env, capture_output=True, text=True, timeout=timeout)
    if p.returncode != 0:
        return None, p.stderr[-500:]
    try:
        return jloads(p.stdout), None
    except Exception as e:
        return None, "bad output: %r" % e


def is_default(spec):
    o = spec.get("options")
    return o is None or "scale" not in o


def run_history(ctx, h, refs):
    out, err = run_proc(h)
    if out is None:
        ctx.judge("history", INCONCLUSIVE, h, reason="history process failed: %s" % err)
        return
    ctx.event("history_processes")
    for k, v in out["events"].items():
        ctx.event(k, v)
    if out["n_interference"]:
        ctx.judge("interference", VIOLATED, h, finding=out["interference"][:3], key="shared-option-state")
    seen_export = {}
    constructed = []
    if any(op[0] == "export-to-file-failing" for op in h["ops"]):
        ctx.stratum("after-a-failed-export-to-file", generated=1, judged=1, held=1)
    if any(op[0] == "failing" for op in h["ops"]):
        ctx.stratum("after-a-failing-construction", generated=1, judged=1, held=1)
    for i, op in enumerate(h["ops"]):
        if op[0] == "new":
            constructed.append(op[1])
    order = {k: i for i, k in enumerate(constructed)}
    for e in out["exports"]:
        k = e["k"]
        spec, be = h["specs"][k], h["backends"][k]
        stratum = "%s/%s" % ("default-scale" if is_default(spec) else "own-scale", be)
        key = digest([spec, be])
        if key not in refs:
            # the reference process also differs in PYTHONHASHSEED: "a fresh process" is any fresh process
            r, err = run_proc({"specs": [spec], "backends": [be], "ops": [["new", 0], ["export", 0]]}, hashseed="5")
            ctx.event("reference_processes")
            refs[key] = (r["exports"][0] if r and r["exports"] else None, err)
        ref, err = refs[key]
        case = {"history": h, "op": e["op"]}
        if ref is None:
            ctx.judge(stratum, INCONCLUSIVE, case, reason="reference process failed: %s" % err)
            continue
        if "exc" in ref:
            if "exc" in e:
                ctx.judge(stratum, INCONCLUSIVE, case, reason="export raises also alone (C11): %s" % ref["exc"])
            else:
                ctx.judge(stratum, VIOLATED, case, finding={"rule": "raises alone but not in the history", "alone": ref["exc"]}, key="differs-from-fresh-process")
            continue
        if "exc" in e:
            ctx.judge(stratum, VIOLATED, case, finding={"rule": "export raised in the history but not alone", "exc": e["exc"]}, key="differs-from-fresh-process")
            continue
        # was another default-scale timeline with different data constructed before this export?
        later = [kk for i2, kk in enumerate(op2[1] for op2 in h["ops"][: e["op"]] if op2[0] == "new") if kk != k]
        nontriv = is_default(spec) and any(is_default(h["specs"][kk]) for kk in later)
        if e["doc"] != ref["doc"]:
            a, b = e["doc"], ref["doc"]
            pos = next((j for j in range(min(len(a), len(b))) if a[j] != b[j]), min(len(a), len(b)))
            ctx.judge(stratum, VIOLATED, case, finding={"rule": "export differs from the fresh-process reference", "first_difference_at": pos,
                                                         "in_history": a[max(0, pos - 60): pos + 60], "alone": b[max(0, pos - 60): pos + 60]}, key="differs-from-fresh-process")
            continue
        if k in seen_export and seen_export[k] != e["doc"]:
            ctx.judge("repeated-export", VIOLATED, case, finding={"rule": "exporting twice gives different documents"}, key="repeated-export-differs")
            continue
        if k in seen_export:
            ctx.stratum("repeated-export", generated=1, judged=1, held=1)
            if k == 0 and h.get("palette_textless"):
                ctx.stratum("repeated-export-with-palettes-and-textless-data", generated=1, judged=1, held=1)
        seen_export[k] = e["doc"]
        sh = h.get("share_data") or {}
        if str(k) in sh or k in sh.values():
            ctx.stratum("shared-data-objects", generated=1, judged=1, held=1)
        if sum(1 for s_ in h["specs"] if s_["options"] is None) >= 2 and spec["options"] is None:
            ctx.stratum("several-timelines-without-options", generated=1, judged=1, held=1)
        so = h.get("share_options") or {}
        if str(k) in so or k in so.values():
            ctx.stratum("shared-options-object", generated=1, judged=1, held=1)
        if k in (h.get("twins") or []):
            ctx.stratum("value-equal-twin", generated=1, judged=1, held=1)
        ctx.judge(stratum, HELD, None, nontrivial=nontriv, dig=digest([h, e["op"]]))
    if len(ctx.samples) < 1:
        ctx.samples.append({"ops": h["ops"], "backends": h["backends"], "n_data": [len(s["data"]) for s in h["specs"]],
                            "default_scale": [is_default(s) for s in h["specs"]]})


def worker(ctx, shard):
    refs = {}
    if shard["kind"] == "hist":
        rng = ctx.rng("hist%d" % shard["sub"])
        for _ in range(shard["n"]):
            if ctx.should_stop(10):
                break
            run_history(ctx, gen_history(rng), refs)
    elif shard["kind"] == "replay-case":
        run_history(ctx, shard["case"]["history"], refs)


def replay(ctx, witness):
    c = witness.get("case") or {}
    if "history" not in c and "specs" in c:
        c = {"history": c}
    worker(ctx, {"kind": "replay-case", "case": c})
