"""C03 - bounds honoured when the items fit, otherwise excess spills.

Deciding monitors: H1 (Force.compute: engine options, no layer moves after its own
solve) + H2 (removeOverlap: chain order, widths, stub flags, monitor-computed
targets, final positions); oracle: oracles/layout.py (exact rational arithmetic).
"""

from props import layout_common as LC

PROPERTY_ID = "C03"
LEVEL = "exploration"
RULE = "Wlayout (see C01) with its bounds strata: exact fit, fit with slack, barely not fit (by 1e-6, 0.5, 1), gross misfit (x3), lower bound only, upper only, negative/fractional bounds, deeper layers of stubs near a bound. One evaluation = one layer solved inside Force.compute(); judged against the ENGINE options recorded by the H1 hook: if the layer fits (or only one bound exists) every item edge lies within 0.5+1e-3 of the bounds; if it does not fit the full C01 separation must hold and the extent must exceed the available width. Non-trivial = a bound is tight (an item within 1 unit of it) or the layer does not fit; distinct = distinct layer problem."
ASSUMPTIONS = [
    "targets are computed by the monitor at layer entry (data position, or the current position of the item's own stub in the nearer layer), not read from the code's targetPos",
    "separation slack 1 (integer rounding of both positions) + 1e-9; optimum/bounds tolerance 0.5 (rounding) + 1e-3 (1e10-weight soft walls)",
    "the bounds are soft walls of weight 1e10: they yield by (sum of the pulls on them)/1e10, i.e. by more than the 1e-3 granted only when labels lie millions of units outside a bound; the workload keeps labels within ~1e4 units of the bounds (positions themselves range up to 1e7 from the origin)",
]


def plan(tier, seed):
    return LC.plan(tier, seed, quick_huge=(52, 100))  # 5200 labels in one layer (about 25 s on one core)


def floors(tier):
    return {"evaluations": 1500, "strata": ["lower-only", "upper-only", "both-bounds-fit", "both-bounds-unfit", "packing-exact-fit", "packing-slack-fit", "packing-barely-unfit", "packing-gross-unfit", "deeper-layer", "upper-bound-at-origin", "all-targets-negative", "direct-solver-after-other-options"],
            "events": {"Force.compute": 1000, "layers_observed": 1500}, "distinct_nontrivial": 300}


def worker(ctx, shard):
    LC.worker(ctx, shard, PROPERTY_ID)


def replay(ctx, witness):
    LC.replay(ctx, witness, PROPERTY_ID)
