"""C11 - export succeeds on every documented input.

Deciding monitor: H10 records the outcome (document or exception) of every
construct+export; H3's logical step budget bounds the solver; the documents must
parse; a degenerate time domain must put every dot at the start of the axis.
Known finding K1 (conflict cluster beyond the interpreter recursion limit) is
keyed by mechanism.
"""

import datetime as dt

from oracles import export as OX
from props import export_common as EC
from vmon.core import HELD, INCONCLUSIVE, VIOLATED, BudgetExceeded
from workloads import tl as TL

PROPERTY_ID = "C11"
LEVEL = "exploration"
RULE = (
    "totality strata of Wtl, both back-ends: single datum; all data at one time; unsorted; spans 1 ms, 7-9 ms, 50 ms, s, min, h, day, week, "
    "month, year, 300 y; windows crossing the 29th-31st of every month, 29 Feb, 31 Dec; options omitted / {} / partial; direction x algorithm "
    "x bounds x showTicks; 100-1000 labels with conflict clusters <= 200; plus the general Wtl generator. One evaluation = one construct+export; "
    "held = returned a document that parses (and, for a degenerate domain, has every dot at 0). Non-trivial = case that is not the plain "
    "'sorted, midnight dates, several labels, options given' shape of the examples; distinct = distinct (spec, back-end)."
)
ASSUMPTIONS = [
    "label widths explicit; TikZ parsed, not compiled",
    "conflict clusters above ~240 labels exhaust the interpreter recursion limit: listed known finding, keyed by RecursionError inside the recursive block traversals of vpsc.py with a layer of more than 200 variables",
]
KEY_RECURSION = "vpsc-recursion-cluster"


def plan(tier, seed):
    shards = [{"kind": "strata", "sub": i} for i in range(8 if tier == "quick" else 32)]
    shards += [{"kind": "general", "sub": i, "n": 100 if tier == "quick" else 1000} for i in range(8 if tier == "quick" else 32)]
    shards += [{"kind": "big", "sub": i, "n": 2 if tier == "quick" else 12} for i in range(2 if tier == "quick" else 8)]
    shards.append({"kind": "pinned"})
    return shards


def floors(tier):
    strata = ["single-datum", "same-time", "options-omitted", "options-empty", "options-partial", "span:1ms", "span:8ms", "span:50ms", "span:second", "span:minute",
              "span:hour", "span:day", "span:week", "span:month", "span:year", "span:300y", "month-end-window", "leap-day-window", "year-end-window", "linear-single", "explicit-width-forms", "bounds-forms", "export-to-file",
              "big", "general"]
    return {"evaluations": 500, "strata": strata, "events": {"Timeline.__init__": 500, "TimelineSVG.export": 200, "TimelineTex.export": 200},
            "distinct_nontrivial": 100, "max_inconclusive_frac": 0.02}


def classify_exc(res, spec):
    name, msg, frames = res["exc"]
    if name == "RecursionError" or name == "BudgetExceeded":
        rec_fns = ("vpsc.py:compute_lm", "vpsc.py:populateSplitBlock", "vpsc.py:findPath", "vpsc.py:isActiveDirectedPathBetween", "vpsc.py:visitNeighbours",
                   "vpsc.py:f", "vpsc.py:ff", "vpsc.py:traverse")
        inner = [f for f in frames[-6:]]
        if name == "RecursionError" and inner and all(f in rec_fns for f in inner) and res.get("max_layer_vars", 0) > 200:
            return KEY_RECURSION
    return "raised " + name


def judge(ctx, mons, spec, stratum, nontrivial=True):
    for kind in ("svg", "tikz"):
        case = {"spec": spec, "backend": kind}
        if mons.solver:
            mons.solver.drain()
        res = EC.export_one(spec, kind, mons)
        if mons.solver:
            recs = mons.solver.drain()
            res["max_layer_vars"] = max([r["inst"].n for r in recs] + [0])
        if res["exc"] is not None:
            key = classify_exc(res, spec)
            ctx.judge(stratum, VIOLATED, case if len(spec["data"]) <= 60 else {"spec": "large (%d data), regenerate from seed" % len(spec["data"]), "backend": kind},
                      finding={"exception": res["exc"][0], "message": res["exc"][1], "repo_frames": res["exc"][2], "largest_layer_variables": res.get("max_layer_vars")}, key=key)
            continue
        if res["picture"] is None:
            ctx.judge(stratum, VIOLATED, case, finding={"reason": "returned document does not parse", "detail": res["parse_error"]}, key="unparseable")
            continue
        P = res["picture"]
        dom = res["domain"]
        if dom[0] == dom[1]:
            if any(abs(d["pos"]) > 1e-9 for d in P.dots):
                ctx.judge(stratum, VIOLATED, case, finding={"reason": "degenerate domain: dots not at the start of the axis", "dots": [d["pos"] for d in P.dots][:5]}, key="degenerate-dots")
                continue
            ctx.stratum("degenerate-domain", generated=1, judged=1, held=1)
        if len(P.dots) != len(spec["data"]):
            ctx.judge(stratum, VIOLATED, case, finding={"reason": "document has %d dots for %d data" % (len(P.dots), len(spec["data"]))}, key="dot-count")
            continue
        ctx.judge(stratum, HELD, case if (len(ctx.samples) < 3 and len(spec["data"]) <= 2) else None, nontrivial=nontrivial, dig=kind + repr(spec)[:4000])


def export_to_file_cases(ctx, mons):
    """export(filename): the documented way of using the library (README, examples/): a bare file name in the current
    directory and a path with a directory part; the file must hold the document export() returns."""
    import os
    import tempfile

    from labella.timeline import TimelineSVG, TimelineTex

    t0 = dt.datetime(2021, 3, 14, 9, 26, 53)
    cwd = os.getcwd()
    with tempfile.TemporaryDirectory(prefix="vmon-c11-") as tmp:
        try:
            os.chdir(tmp)
            os.mkdir("sub")
            for cls, ext, kw in ((TimelineSVG, "svg", {}), (TimelineTex, "tex", {"build_pdf": False})):
                for target in ("timeline." + ext, os.path.join("sub", "t." + ext), os.path.join(tmp, "abs." + ext), "./dot." + ext):
                    for d in ("up", "left"):
                        data = [{"time": t0 + dt.timedelta(hours=7 * i), "width": 30 + i, "text": ["L0", "L1 \u2026 \u00bd \ufb01", "caf\u00e9 <&>", "e\u0301\u00a0x\u00b2"][i]} for i in range(4)]
                        case = {"class": cls.__name__, "target": target if not os.path.isabs(target) else "<tmp>/abs." + ext, "direction": d}
                        try:
                            tl = cls(data, options={"direction": d, "initialWidth": 500, "initialHeight": 400})
                            ref = tl.export()
                            tl.export(target, **kw)
                            with open(target, "rb") as fh:
                                got = fh.read()
                            refb = ref if isinstance(ref, bytes) else (ref if isinstance(ref, str) else "\n".join(ref)).encode("utf-8")
                            if got.strip() != refb.strip():
                                ctx.judge("export-to-file", VIOLATED, case, finding={"reason": "file content differs from the returned document", "file_bytes": len(got), "returned_bytes": len(refb)}, key="file-differs")
                            else:
                                ctx.judge("export-to-file", HELD, None, nontrivial=True, dig=repr(case))
                            os.remove(target)
                        except Exception as e:
                            ctx.judge("export-to-file", VIOLATED, case, finding={"exception": type(e).__name__, "message": str(e)[:200]}, key="raised " + type(e).__name__)
        finally:
            os.chdir(cwd)


def strata_specs(rng):
    """Deterministic ladder of totality cases (+ a little seeded variation)."""
    out = []
    base_opts = lambda d="up": {"direction": d, "scale": "time", "initialWidth": 600, "initialHeight": 400, "labella": {"maxPos": 560}}
    t0 = dt.datetime(2021, 3, 14, 9, 26, 53, 589000)
    # single datum / same time / options forms
    for d in TL.DIRECTIONS:
        out.append(("single-datum", {"data": [{"time": t0, "width": 40, "uid": 0, "text": "only"}], "options": base_opts(d)}))
        out.append(("single-datum", {"data": [{"time": dt.date(2020, 2, 29), "width": 40, "uid": 0}], "options": base_opts(d)}))
        out.append(("linear-single", {"data": [{"time": 5.0, "width": 40, "uid": 0}], "options": dict(base_opts(d), scale="linear")}))
        out.append(("same-time", {"data": [{"time": t0, "width": 30 + i, "uid": i, "text": "L%d" % i} for i in range(4)], "options": base_opts(d)}))
        out.append(("same-time", {"data": [{"time": 7.0, "width": 30 + i, "uid": i} for i in range(3)], "options": dict(base_opts(d), scale="linear")}))
    # forms of the explicit width and of the text next to it (0 is an explicit width; "" and "0" are texts)
    for wform in ([0, 0.0, 1, 0.5], [0, 40, 5000], [0.0, 0.0, 0.0], [7, 7, 7]):
        for tform in (lambda i: "L%d" % i, lambda i: None, lambda i: ["", "0", " "][i % 3], lambda i: "same"):
            data = []
            for i, w in enumerate(wform):
                d = {"time": t0 + dt.timedelta(hours=5 * i), "width": w, "uid": i}
                if tform(i) is not None:
                    d["text"] = tform(i)
                data.append(d)
            out.append(("explicit-width-forms", {"data": data, "options": base_opts(rng.choice(TL.DIRECTIONS))}))
            out.append(("explicit-width-forms", {"data": [dict(d, time=float(i)) for i, d in enumerate(data)], "options": dict(base_opts(rng.choice(TL.DIRECTIONS)), scale="linear")}))
    # a label of width 0 (no padding along the axis) in a cluster that the default layering has to split (D13)
    for d in TL.DIRECTIONS:
        data = [{"time": t0 + dt.timedelta(minutes=i), "width": [60, 0, 55, 0.0, 70, 65][i], "uid": i} for i in range(6)]
        out.append(("explicit-width-forms", {"data": data, "options": dict(base_opts(d), labella={"maxPos": 200, "density": 0.5}, labelPadding={"left": 0, "right": 0, "top": 1, "bottom": 1})}))
    # forms of the bounds: a band of zero width, coinciding or crossed bounds, a bound at the origin, no lower bound
    for lab in ({"maxPos": 0}, {"minPos": 50, "maxPos": 50}, {"minPos": 100, "maxPos": 50}, {"minPos": None, "maxPos": 0}, {"minPos": None, "maxPos": -10},
                {"minPos": -300, "maxPos": 0}, {"minPos": 0.0, "maxPos": 0.0, "algorithm": "simple"}, {"maxPos": 0, "algorithm": "none"}, {"minPos": None}):
        for d in ("up", "left"):
            data = [{"time": t0 + dt.timedelta(minutes=7 * i), "width": 30 + i, "uid": i, "text": "L%d" % i} for i in range(5)]
            out.append(("bounds-forms", {"data": data, "options": dict(base_opts(d), labella=dict(lab))}))
    data3 = [{"time": dt.date(2020, 1, 1 + 9 * i), "width": 30 + i, "uid": i, "text": "L%d" % i} for i in range(3)]
    out.append(("options-omitted", {"data": data3, "options": None}))
    out.append(("options-omitted", {"data": [{"time": dt.datetime(2020, 5, 1 + i, 12), "width": 50, "uid": i} for i in range(5)], "options": None}))
    out.append(("options-empty", {"data": data3, "options": {}}))
    out.append(("options-partial", {"data": data3, "options": {"direction": "up"}}))
    out.append(("options-partial", {"data": data3, "options": {"labella": {"maxPos": 300}, "showTicks": False}}))
    out.append(("options-partial", {"data": data3, "options": {"latex": {"fontsize": "10pt"}}}))
    spans = [("1ms", 0.001), ("8ms", 0.007), ("8ms", 0.008), ("8ms", 0.009), ("50ms", 0.05), ("second", 1.7), ("minute", 95), ("hour", 5000), ("day", 100000),
             ("week", 8 * 86400), ("month", 40 * 86400), ("year", 500 * 86400), ("300y", 300 * 365.25 * 86400)]
    for name, s in spans:
        for k in range(2):
            a = dt.datetime(rng.randrange(1901, 2000), rng.randrange(1, 13), rng.randrange(1, 29), rng.randrange(24), rng.randrange(60), rng.randrange(60), rng.randrange(1000) * 1000)
            n = rng.choice([2, 3, 6])
            data = [{"time": a + dt.timedelta(seconds=s * i / (n - 1)), "width": 30 + i, "uid": i} for i in range(n)]
            for d in data:
                d["time"] = d["time"].replace(microsecond=d["time"].microsecond // 1000 * 1000)
            rng.shuffle(data)
            o = base_opts(rng.choice(TL.DIRECTIONS))
            o["labella"] = {"maxPos": 560, "algorithm": rng.choice(["overlap", "simple", "none"])}
            if k:
                o["showTicks"] = False
            out.append(("span:" + name, {"data": data, "options": o}))
    # day-granularity windows across every month end, leap day, year end
    for m in range(1, 13):
        y = rng.choice([2019, 2020, 2021, 2100, 2000])
        a = dt.datetime(y, m, 27, rng.randrange(24))
        data = [{"time": a + dt.timedelta(days=i * rng.choice([1, 2])), "width": 30 + i, "uid": i} for i in range(5)]
        out.append(("month-end-window", {"data": data, "options": base_opts(rng.choice(TL.DIRECTIONS))}))
    for y in (2020, 2024, 2000, 1900, 2100):
        out.append(("leap-day-window", {"data": [{"time": dt.date(y, 2, 26) + dt.timedelta(days=i), "width": 30 + i, "uid": i} for i in range(6)], "options": base_opts()}))
        out.append(("year-end-window", {"data": [{"time": dt.datetime(y, 12, 29, 6) + dt.timedelta(days=i), "width": 30 + i, "uid": i} for i in range(6)], "options": base_opts("left")}))
    return out


def worker(ctx, shard):
    mons = EC.Monitors(solver=True)
    kind = shard["kind"]
    if kind == "strata":
        rng = ctx.rng("strata%d" % shard["sub"])
        for stratum, spec in strata_specs(rng):
            if ctx.should_stop(60):
                break
            judge(ctx, mons, spec, stratum)
        if shard["sub"] == 0:
            export_to_file_cases(ctx, mons)
    elif kind == "general":
        rng = ctx.rng("general%d" % shard["sub"])
        for _ in range(shard["n"]):
            if ctx.should_stop(60):
                break
            spec = TL.gen_spec(rng)
            plain = False
            judge(ctx, mons, spec, "general", nontrivial=not plain)
    elif kind == "big":
        rng = ctx.rng("big%d" % shard["sub"])
        for _ in range(shard["n"]):
            n = rng.choice([100, 300, 1000])
            # clusters of at most 200 labels: spread the centres so that clusters stay apart
            size = rng.choice([50, 120, 200])
            nclus = -(-n // size)  # every cluster holds at most `size` (<= 200) labels
            width = 20
            axis = 40000
            centres = [axis * (k + 0.5) / nclus for k in range(nclus)]
            data = []
            for i in range(n):
                c = centres[i % nclus]
                data.append({"time": c + rng.uniform(-1, 1), "width": width + (i % 7), "uid": i})
            o = {"direction": rng.choice(TL.DIRECTIONS), "scale": "linear", "domain": [0.0, float(axis)], "labella": {"algorithm": "none", "minPos": None}}
            if o["direction"] in ("up", "down"):
                o["initialWidth"], o["initialHeight"] = axis + 40, 400
            else:
                o["initialWidth"], o["initialHeight"] = 400, axis + 40
            judge(ctx, mons, {"data": data, "options": o}, "big")
    elif kind == "pinned":
        pinned_shard(ctx, mons)
    elif kind == "replay-case":
        judge(ctx, mons, shard["case"]["spec"], "replay")
    mons.events(ctx)
    if mons.solver:
        ctx.event("Solver.solve", mons.solver.events["Solver.solve"])
    mons.uninstall()


def pinned_spec():
    """300 labels at one position: one conflict cluster beyond the recursion limit."""
    data = [{"time": 500.0, "width": 20, "uid": i} for i in range(300)]
    return {"data": data, "options": {"direction": "up", "scale": "linear", "domain": [0.0, 1000.0], "initialWidth": 1040, "labella": {"algorithm": "none"}}}


def pinned_shard(ctx, mons):
    from vmon.core import Ctx, load_known_findings

    known, _ = load_known_findings(PROPERTY_ID)
    status = {}
    if KEY_RECURSION in known:
        sub = Ctx(PROPERTY_ID, ctx.tier, ctx.seed)
        judge(sub, mons, pinned_spec(), "pinned")
        keys = [v.get("key") for v in sub.violations]
        if not keys:
            status[KEY_RECURSION] = "passes"
        elif all(k == KEY_RECURSION for k in keys):
            status[KEY_RECURSION] = "fails"
        else:
            status[KEY_RECURSION] = "fails-differently"
            ctx.judge("pinned", VIOLATED, {"spec": "pinned 300 labels at one position"}, finding=sub.violations[0].get("finding"), key=[k for k in keys if k != KEY_RECURSION][0])
    ctx.extra["pinned"] = status


def replay(ctx, witness):
    c = witness.get("case") or {}
    if isinstance(c.get("spec"), dict):
        worker(ctx, {"kind": "replay-case", "case": c})
    else:
        ctx.judge("replay", INCONCLUSIVE, c, reason="large case: re-run the check with the same VERIF_SEED")
