"""C12 - the linear scale is the affine map through its domain and range end points;
copies are independent.

Deciding monitors: H5 LinearMonitor (end-point invariant and non-interference at
every mutator, affinity at every evaluation, all against what the object itself
reports) + relational checks by the driver over the observed results
(monotonicity, inverse round trips, clamping).
"""

import math
from fractions import Fraction

from vmon.core import HELD, INCONCLUSIVE, VIOLATED

PROPERTY_ID = "C12"
LEVEL = "exploration"
RULE = (
    "seeded cases: (static) LinearScale with domain [a,b], a!=b, either order, |end| in 1e-6..1e9 incl. near-degenerate spans "
    "(>=1e-6 of the magnitude), range either order, clamp on/off, evaluated at ends, inside, and up to 10 spans outside; "
    "(history) 2-10 random domain/range/clamp/nice/copy operations on a scale and its copies (copies of copies), every live "
    "object evaluated after every operation. Non-trivial = static case with an evaluation strictly inside or outside the domain, "
    "or history containing copy followed by nice/domain on either side; distinct = distinct case description."
)
ASSUMPTIONS = [
    "tolerances: affinity 1e-9*(|r0|+|r1|)*(1+|t|); round trips scaled by the conditioning of domain and range; end points compared with ==",
    "interpolate() other than the default linear interpolation is not exercised",
    "floating-point reading of the relational clauses: a clamped output may differ from the nearer range end by one unit in the last place (the rounded "
    "a(1-t)+bt; observed only on ranges a few ulps wide), and strictness is required only where the exact images are more than 4*ulp(range end)*(1+|t1|+|t2|) apart",
]


def plan(tier, seed):
    k = 8 if tier == "quick" else 64
    n_static = 1500 if tier == "quick" else 12000
    n_hist = 1200 if tier == "quick" else 10000
    return [{"kind": "mixed", "sub": i, "n_static": n_static, "n_hist": n_hist} for i in range(k)] + [{"kind": "repo-tests", "part": "linear"}, {"kind": "insitu-exports", "n": 150 if tier == "quick" else 2000}]


def floors(tier):
    return {
        "evaluations": 5000,
        "strata": ["static", "static-clamp", "history", "history-copy-then-nice"],
        "events": {"endpoint_invariant": 5000, "noninterference": 2000, "eval.__call__": 20000, "eval.invert": 5000, "copy": 500, "mutator.nice": 500},
        "distinct_nontrivial": 1000,
        "paths": ["domain-set-from-another-scales-live-list"],
    }


def rand_mag(rng, lo=-6, hi=9):
    v = 10 ** rng.uniform(lo, hi)
    r = rng.random()
    if r < 0.25:
        v = float(round(v)) if v >= 1 else v
    return v if rng.random() < 0.5 else -v


def _few_ulps(rng, a):
    b = a
    for _ in range(rng.choice([1, 1, 2, 3, 10, 1000])):
        b = math.nextafter(b, math.inf if rng.random() < 0.5 or b == a else b + (b - a))
    if b == a:
        b = math.nextafter(a, math.inf)
    return b


def rand_domain(rng):
    r = rng.random()
    if r < 0.06:
        # distinct ends a few units in the last place apart, or a tiny absolute distance apart: still a != b
        a = rand_mag(rng)
        if rng.random() < 0.5:
            return [a, _few_ulps(rng, a)] if rng.random() < 0.5 else [_few_ulps(rng, a), a]
        a = rand_mag(rng, -6, -3)
        b = a + 10 ** rng.uniform(-16, -12) * rng.choice([1, -1])
        return [a, b] if b != a else [a, math.nextafter(a, math.inf)]
    r = rng.random()
    if r < 0.15:
        return [0.0, rand_mag(rng)] if rng.random() < 0.5 else [rand_mag(rng), 0.0]
    if r < 0.30:  # narrow span relative to magnitude
        a = rand_mag(rng, 0, 9)
        span = abs(a) * 10 ** rng.uniform(-6, -1) * rng.choice([1, -1])
        b = a + span
        if b == a:
            b = a + abs(a) * 1e-6
        return [a, b]
    if r < 0.45:
        a = float(rng.randrange(-1000, 1000))
        b = float(rng.randrange(-1000, 1000))
        if a == b:
            b = a + 1
        return [a, b]
    a, b = rand_mag(rng), rand_mag(rng)
    if a == b:
        b = a + 1.0
    return [a, b]


def rand_range(rng):
    if rng.random() < 0.04:
        a = rand_mag(rng, -6, 3)
        return [a, _few_ulps(rng, a)] if rng.random() < 0.5 else [_few_ulps(rng, a), a]
    r = rng.random()
    if r < 0.4:
        c = rng.choice([[0, 100], [0, 360], [500, 0], [0, 1], [-50, 50], [960, 20]])
        return list(c)
    a, b = rand_mag(rng, -3, 6), rand_mag(rng, -3, 6)
    if a == b:
        b = a + 1
    return [a, b]


def xs_for(rng, d):
    a, b = d
    span = b - a
    xs = [a, b, a + span / 2, a + span * rng.random(), a + span * rng.random()]
    xs += [a - span * rng.uniform(0, 10), b + span * rng.uniform(0, 10), a + span * 0.25, a + span * 0.75]
    return xs


def static_case(ctx, mon, rng, S):
    d = rand_domain(rng)
    r = rand_range(rng)
    clamp = rng.random() < 0.35
    xs = xs_for(rng, d)
    case = {"type": "static", "domain": d, "range": r, "clamp": clamp, "xs": xs}
    stratum = "static-clamp" if clamp else "static"
    v0 = mon.n_violations
    probs = []
    try:
        mon.reset()
        # a range is a pair: a tenth of the cases hand it over as a tuple
        s = S.LinearScale().domain(d).range(tuple(r) if hash(repr(d)) % 10 == 0 else list(r)).clamp(clamp)
        ys = [s(x) for x in xs]
        ys2 = [s.scale(x) for x in xs]
        if ys != ys2:
            probs.append("scale(x) and __call__(x) disagree")
        if ys[0] != r[0] or ys[1] != r[1]:
            probs.append("end points not mapped exactly: %r -> %r, range %r" % (d, ys[:2], r))
        span_d, span_r = d[1] - d[0], r[1] - r[0]
        cond = (abs(d[0]) + abs(d[1])) + abs(span_d) * (abs(r[0]) + abs(r[1])) / abs(span_r)
        condr = (abs(r[0]) + abs(r[1])) + abs(span_r) * (abs(d[0]) + abs(d[1])) / abs(span_d)
        if not clamp:
            # strict monotonicity on ordered samples spaced >= 1e-9 of the span (relative to conditioning)
            pts = sorted(zip(xs, ys))
            sign = 1 if (span_d > 0) == (span_r > 0) else -1
            ulp = math.ulp(max(abs(r[0]), abs(r[1])))
            for (x1, y1), (x2, y2) in zip(pts, pts[1:]):
                if x2 - x1 < 1e-6 * abs(span_d):
                    continue
                # a range a few units in the last place wide has too few floats for strictness, and the rounded a(1-t)+bt carries
                # an error of about ulp*(1+|t|): where the exact images are closer than twice that, only an inversion larger than
                # it is a violation
                t1, t2 = abs((x1 - d[0]) / span_d), abs((x2 - d[0]) / span_d)
                err = 2 * ulp * (1 + t1 + t2)
                exact_dy = abs(Fraction(x2) - Fraction(x1)) / abs(Fraction(d[1]) - Fraction(d[0])) * abs(Fraction(r[1]) - Fraction(r[0]))
                ok = sign * (y2 - y1) > 0 if exact_dy > 2 * err else sign * (y2 - y1) >= -err
                if not ok:
                    probs.append("not strictly monotone between x=%r and x=%r: %r, %r" % (x1, x2, y1, y2))
                    break
            for x, y in zip(xs, ys):
                t = abs((x - d[0]) / span_d)
                back = s.invert(y)
                if abs(back - x) > 1e-9 * cond * (1 + t):
                    probs.append("invert(scale(x)) != x: x=%r back=%r" % (x, back))
                    break
            for f in (0.0, 1.0, 0.3, -0.5, 1.8):
                y = r[0] + f * span_r
                x = s.invert(y)
                y2 = s(x)
                if abs(y2 - y) > 1e-9 * condr * (1 + abs(f)):
                    probs.append("scale(invert(y)) != y: y=%r got %r" % (y, y2))
                    break
        else:
            u = S.LinearScale().domain(d).range(list(r))
            lo, hi = min(r), max(r)
            dl, dh = min(d), max(d)
            for x, y in zip(xs, ys):
                if not (lo - math.ulp(lo) <= y <= hi + math.ulp(hi)):
                    probs.append("clamped output %r leaves the range %r" % (y, r))
                    break
                if dl <= x <= dh and abs(y - u(x)) > 1e-12 * (abs(lo) + abs(hi)):
                    probs.append("clamped output differs from unclamped inside the domain at x=%r" % x)
                    break
    except Exception as e:
        probs.append("raised %s: %s" % (type(e).__name__, e))
    if mon.n_violations > v0:
        probs.extend("monitor:%s %r" % (v["kind"], v["detail"]) for v in mon.violations[-3:])
    if probs:
        ctx.judge(stratum, VIOLATED, case, finding=probs[:5], key="static:" + probs[0].split(":")[0][:40])
    else:
        ctx.judge(stratum, HELD, case, nontrivial=True)


SMALL = [-3.0, -2.0, -1.0, 0.0, 1.0, 2.0, 3.0]


def _small_pair(rng):
    a, b = rng.sample(SMALL, 2)
    return [a, b]


def history_case(ctx, mon, rng, S):
    if rng.random() < 0.12:
        # every end point from a pool of seven small integers: many set-ups in one process that differ in exactly one end
        # (-1 against -2, 0 against -0 ...), on one scale and its copies
        ops = []
        nlive = 1
        for _ in range(rng.randrange(6, 16)):
            r = rng.random()
            i = rng.randrange(nlive)
            if r < 0.45:
                ops.append(["domain", i, _small_pair(rng)])
            elif r < 0.8:
                ops.append(["range", i, _small_pair(rng)])
            elif r < 0.9:
                ops.append(["clamp", i, rng.random() < 0.5])
            else:
                ops.append(["copy", i])
                nlive += 1
        ctx.path("small-integer-pool-history")
        run_history(ctx, mon, S, {"type": "history", "init_domain": _small_pair(rng), "init_range": _small_pair(rng), "ops": ops})
        return
    nops = rng.randrange(2, 11)
    ops = []
    nlive = 1
    for _ in range(nops):
        r = rng.random()
        i = rng.randrange(nlive)
        if r < 0.22:
            ops.append(["domain", i, rand_domain(rng)])
        elif r < 0.36:
            ops.append(["range", i, rand_range(rng)])
        elif r < 0.42:
            ops.append(["clamp", i, rng.random() < 0.5])
        elif r < 0.43:
            ops.append(["ticks", i, rng.choice([None, 3, 10, 47])])  # asking for ticks / a formatter changes nothing the caller set
        elif r < 0.44:
            ops.append(["interpolate-round-trip", i])  # s.interpolate(s.interpolate()): sets what is already set
        elif r < 0.46:
            # the list the scale hands out (or was given) is edited in place and passed to the setter again
            ops.append([rng.choice(["range-edit-in-place", "domain-edit-in-place"]), i, rng.choice([0, 1]), rand_mag(rng, -3, 6)])
        elif r < 0.50 and nlive > 1:
            # the domain list another live scale hands out is given to this one's setter (seeded/C12o: the setter keeps an
            # all-float list instead of copying it, a later nice() on either scale rewrites it in place under the other)
            ops.append(["domain-from", i, rng.randrange(nlive)])
        elif r < 0.72:
            ops.append(["nice", i, rng.choice([None, None, 2, 3, 5, 10, 20, 47])])
        else:
            ops.append(["copy", i])
            nlive += 1
    init_d, init_r = rand_domain(rng), rand_range(rng)
    case = {"type": "history", "init_domain": init_d, "init_range": init_r, "ops": ops}
    run_history(ctx, mon, S, case)


def run_history(ctx, mon, S, case):
    ops = case["ops"]
    copied = set()
    edited = False
    copy_then_mut = False
    shared_from = False
    v0 = mon.n_violations
    probs = []
    try:
        mon.reset()
        if hash(repr(case["init_range"])) % 3 == 0:
            objs = [S.LinearScale().range(list(case["init_range"])).domain(case["init_domain"])]  # the range first, then the domain
        else:
            objs = [S.LinearScale().domain(case["init_domain"]).range(list(case["init_range"]))]
        want = [{"domain": list(case["init_domain"]), "range": list(case["init_range"]), "clamp": False}]  # what the caller last set
        for op in ops:
            o = objs[op[1]]
            wi = want[op[1]]
            if op[0] == "domain":
                o.domain(op[2])
                wi["domain"] = list(op[2])
            elif op[0] == "domain-from":
                src = objs[op[2]].domain()
                wi["domain"] = list(src)
                o.domain(src)
                if op[2] != op[1]:
                    shared_from = True
            elif op[0] == "range":
                o.range(tuple(op[2]) if hash(repr(op[2])) % 5 == 0 else list(op[2]))
                wi["range"] = list(op[2])
            elif op[0] in ("range-edit-in-place", "domain-edit-in-place"):
                acc = o.range if op[0].startswith("range") else o.domain
                lst = acc()
                if isinstance(lst, list) and lst[1 - op[2]] != op[3]:
                    lst[op[2]] = op[3]
                    acc(lst)
                    wi["range" if op[0].startswith("range") else "domain"] = list(lst)
                    edited = True
            elif op[0] == "ticks":
                d_ = o.domain()
                # ticks are claimed (C13) for spans of at least a millionth of the end points' magnitude; below that the step
                # drops under the float resolution and the tick loop of the unchanged library does not advance
                if abs(d_[1] - d_[0]) >= 1e-6 * max(abs(d_[0]), abs(d_[1]), 1e-300) and abs(d_[1] - d_[0]) >= 1e-9:
                    list(o.ticks(op[2])) if op[2] is not None else list(o.ticks())
                    o.tickFormat(op[2]) if op[2] is not None else o.tickFormat()
            elif op[0] == "interpolate-round-trip":
                o.interpolate(o.interpolate())
            elif op[0] == "clamp":
                o.clamp(op[2])
                wi["clamp"] = bool(op[2])
            elif op[0] == "nice":
                o.nice(op[2]) if op[2] is not None else o.nice()
                wi["domain"] = None  # nice() moves the domain (C14); range and clamp stay
            elif op[0] == "copy":
                c = o.copy()
                objs.append(c)
                want.append({"domain": wi["domain"] and list(wi["domain"]), "range": list(wi["range"]), "clamp": wi["clamp"]})
                copied.add(op[1])
                copied.add(len(objs) - 1)
            if op[0] in ("nice", "domain") and op[1] in copied:
                copy_then_mut = True
            # one setter leaves what the others set: every object still reports the range, clamp flag and (unless niced) domain it was given
            for x, w in zip(objs, want):
                if list(x.range()) != w["range"] or bool(x.clamp()) != w["clamp"] or (w["domain"] is not None and list(x.domain()) != w["domain"]):
                    probs.append("setter interference after %s: reports domain %r range %r clamp %r, the caller set %r" % (op[0], list(x.domain()), list(x.range()), x.clamp(), w))
            if probs:
                break
            # evaluate every live object after every operation (through the monitored entry points)
            for x in objs:
                d = x.domain()
                if d[0] == d[1]:
                    continue
                span = d[1] - d[0]
                for f in (0.0, 1.0, 0.37, 1.5):
                    x(d[0] + f * span)
                rr = x.range()
                x.invert(rr[0] + 0.5 * (rr[1] - rr[0]))
    except Exception as e:
        probs.append("raised %s: %s" % (type(e).__name__, e))
    stratum = "history-copy-then-nice" if copy_then_mut else "history"
    if edited:
        ctx.path("list-edited-in-place-and-set-again")
    if shared_from:
        ctx.path("domain-set-from-another-scales-live-list")
    if mon.n_violations > v0:
        vs = mon.violations[-(mon.n_violations - v0):][:4]
        ctx.judge(stratum, VIOLATED, case, finding=vs + probs, key="history:" + (vs[0]["kind"] if vs else "monitor"))
    elif probs:
        ctx.judge(stratum, VIOLATED, case, finding=probs, key="history:setter-interference" if probs[0].startswith("setter interference") else "history:raised")
    else:
        ctx.judge(stratum, HELD, case, nontrivial=copy_then_mut)


def worker(ctx, shard):
    from vmon.mon_scale import LinearMonitor

    mon = LinearMonitor(keep=200).install()
    import labella.scale as S

    if shard["kind"] == "repo-tests":
        from props import workload_r

        mon.uninstall()
        workload_r.judge(ctx, shard["part"])
        return
    if shard["kind"] == "insitu-exports":
        from props import export_common as EC

        EC.insitu_exports(ctx, mon, lambda: mon.events["eval.__call__"] + mon.events["endpoint_invariant"], shard["n"])
        for k, v in mon.events.items():
            ctx.event("insitu." + k, v)
        mon.uninstall()
        return
    rng = ctx.rng("mixed%d" % shard["sub"])
    for _ in range(shard["n_static"]):
        static_case(ctx, mon, rng, S)
    for _ in range(shard["n_hist"]):
        history_case(ctx, mon, rng, S)
    for k, v in mon.events.items():
        ctx.event(k, v)
    mon.uninstall()


def replay(ctx, witness):
    from vmon.mon_scale import LinearMonitor

    mon = LinearMonitor().install()
    import labella.scale as S

    case = witness.get("case") or {}
    if case.get("type") == "history":
        run_history(ctx, mon, S, case)
    else:
        ctx.judge("replay", INCONCLUSIVE, case, reason="static cases are regenerated from the seed; re-run the check with the same VERIF_SEED")
    mon.uninstall()
