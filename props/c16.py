"""C16 - time ticks never fail, increase, stay in the domain, sit on calendar boundaries.

Deciding oracle: oracles/ticks.judge_time_ticks over the list returned by the real
TimeScale.ticks(count); H6 records which tick method the library chose (all 18
table rows, the millisecond path and the multi-year path must be seen), H7
(calendar monitor) stays installed and observes every interval call in situ.
"""

from datetime import datetime

from oracles import ticks as T
from vmon.core import HELD, INCONCLUSIVE, VIOLATED
from workloads import timedom

PROPERTY_ID = "C16"
LEVEL = "exploration"
RULE = (
    "seeded time domains (ms resolution, 1900-2200, either orientation): spans from the tick-interval table x U(0.6,1.9), log-uniform "
    "1 ms..250 y, 1-11 ms (incl. 7-9 ms), day-granularity windows starting on the 27th of a month, anchors on month ends, leap days, "
    "year ends, Sundays; counts 2..50 and the default. Each case: ticks(m) judged for totality, strict increase, in-domain, calendar "
    "alignment by smallest gap, gap ratio <= 2, count bounds (or one tick per ms). Non-trivial = at least 3 ticks; distinct = distinct "
    "(domain, m)."
)
ASSUMPTIONS = ["process time zone UTC (C18 covers zones)", "alignment classes as in oracles/ticks.alignment_required"]


def plan(tier, seed):
    k = 8 if tier == "quick" else 64
    return [{"kind": "ticks", "sub": i, "n": 3000 if tier == "quick" else 25000} for i in range(k)]


def floors(tier):
    paths = ["tickMethod.row%02d" % i for i in range(18)] + ["tickMethod.milliseconds", "tickMethod.multi-year"]
    return {"evaluations": 8000, "strata": ["tiny-ms", "table", "loguniform", "day-window-month-end", "table+calendar-edge"],
            "events": {"TimeScale.ticks": 8000, "calendar.calls": 10000}, "paths": paths, "distinct_nontrivial": 5000}


_REUSE = {"scale": None}


def run_case(ctx, S, a, b, m, tag, reuse=None):
    case = {"domain": [a, b], "m": m, "reuse": reuse}
    meff = 10 if m is None else m
    try:
        prev = _REUSE["scale"]
        if reuse == "same-object" and prev is not None:
            s = prev.domain([a, b])  # a scale that already produced ticks for another domain
            ctx.path("reused-scale-object")
        elif reuse == "copy" and prev is not None:
            s = prev.copy().domain([a, b])
            ctx.path("copied-scale-object")
        elif reuse == "copy-sibling-asked-first" and prev is not None:
            # two live scales related by copy() hold different domains; the other one is asked for the same count first
            s = prev.copy().domain([a, b])
            prev.ticks(m) if m is not None else prev.ticks()
            ctx.path("copy-sibling-asked-first")
        else:
            s = S.TimeScale().domain([a, b])
        _REUSE["scale"] = s
        if hash((b, a)) % 4 == 0:
            s.range([0, [100, 960, 2400, 10000, -3000][hash((a, b)) % 5]])
            ctx.path("with-an-output-range")
        if m is not None and hash((a, b, m)) % 12 == 0:
            m = float(m)  # a count given as a float with an integral value is the same count
            ctx.path("float-count")
        ticks = s.ticks(m) if m is not None else s.ticks()
        if reuse == "result-mutated-then-asked-again" and isinstance(ticks, list):
            # what the caller does with a returned list is the caller's business: asking again gives the ticks again
            ticks.reverse()
            del ticks[: len(ticks) // 2 + 1]
            ticks = s.ticks(m) if m is not None else s.ticks()
            ctx.path("result-mutated-then-asked-again")
        ticks = list(ticks)
    except Exception as e:
        ctx.judge(tag, VIOLATED, case, finding="raised %s: %s" % (type(e).__name__, e), key="raised " + type(e).__name__)
        return
    probs = T.judge_time_ticks(a, b, meff, ticks)
    if probs:
        p0 = probs[0]
        key = ("tick-outside-domain" if "outside the domain" in p0 else "not-increasing" if "not strictly increasing" in p0 else "count" if p0.startswith("count")
               else "alignment" if "is not on a" in p0 else "gap-ratio" if "gaps differ" in p0 else "ms-ticks" if "per millisecond" in p0 else "other")
        ctx.judge(tag, VIOLATED, case, finding={"problems": probs[:4], "n": len(ticks), "ticks": ticks[:6]}, key=key)
    else:
        ctx.judge(tag, HELD, {"domain": [a, b], "m": m, "n": len(ticks), "ticks": ticks[:3]}, nontrivial=len(ticks) >= 3, dig="%s|%s|%r" % (a, b, m))


def worker(ctx, shard):
    from vmon.mon_scale import TimeMonitor
    from vmon.mon_time import CalendarMonitor

    tm = TimeMonitor().install()
    cm = CalendarMonitor().install()
    import labella.scale as S

    rng = ctx.rng("ticks%d" % shard["sub"])
    for _ in range(shard["n"]):
        a, b, m, tag = timedom.gen_time_domain(rng)
        run_case(ctx, S, a, b, m, tag, reuse=rng.choice([None, None, None, "same-object", "copy", "copy-sibling-asked-first", "result-mutated-then-asked-again"]))
    ctx.event("TimeScale.ticks", tm.events["ticks"])
    ctx.event("calendar.calls", sum(cm.calls.values()))
    for k, v in tm.paths.items():
        ctx.path(k, v)
    ctx.extra["insitu_monitor_violations"] = {"calendar(C17)": cm.n_violations}
    if cm.n_violations:
        ctx.notes.append("in-situ calendar monitor fired: %r" % cm.violations[:2])
    tm.uninstall(); cm.uninstall()


def replay(ctx, witness):
    import labella.scale as S

    c = witness.get("case") or {}
    run_case(ctx, S, c["domain"][0], c["domain"][1], c.get("m"), "replay")
