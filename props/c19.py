"""C19 - label text reaches TeX intact.

Deciding monitor: H8 (vmon/mon_tex.py) - online checker on the real
labella.tex.uni2tex: totality, ASCII identity, alignment of every accent
command with the accented character it replaces, canonical-equivalent read-back.
"""

import unicodedata

from vmon.core import HELD, INCONCLUSIVE, VIOLATED

PROPERTY_ID = "C19"
LEVEL = "exploration"
RULE = (
    "uni2tex driven on every Unicode code point except surrogates (enumerated) alone and in contexts "
    "a<c>, <c>a, a<c>b (quick) plus <c><c>, e<acute><c>, <c><grave> (thorough); seeded random strings over "
    "pools (ASCII incl. TeX specials, precomposed letters, base+1/2 combining marks, leading/trailing marks, "
    "compatibility characters, CJK, emoji); label texts of TikZ exports observed in situ. Every call is judged "
    "by the online monitor. Non-trivial = input containing a character with a Unicode decomposition or a "
    "combining mark; distinct = distinct input string."
)
ASSUMPTIONS = [
    "Python's unicodedata tables (shared with the code under observation) define decompositions and canonical equivalence",
    "inputs containing a literal backslash or brace are judged on totality and ASCII identity only (their read-back is ambiguous by construction)",
]

CONTEXTS_QUICK = ["%s", "a%s", "%sa", "a%sb"]
CONTEXTS_THOROUGH = CONTEXTS_QUICK + ["%s%s", "é%s", "%s̀", "ö%ṣ"]


def EXHAUSTIVE(tier):
    return "uni2tex on every code point U+0000..U+10FFFF except surrogates, in %d contexts" % (
        len(CONTEXTS_QUICK) if tier == "quick" else len(CONTEXTS_THOROUGH)
    )


def plan(tier, seed):
    shards = []
    # code point sweep: the BMP is dense in interesting characters -> finer shards
    edges = list(range(0, 0x10000, 0x2000)) + list(range(0x10000, 0x110000, 0x20000)) + [0x110000]
    for lo, hi in zip(edges, edges[1:]):
        shards.append({"kind": "sweep", "lo": lo, "hi": hi})
    nrand = 8 if tier == "quick" else 64
    for sub in range(nrand):
        shards.append({"kind": "random", "n": 4000 if tier == "quick" else 20000, "sub": sub})
    shards.append({"kind": "pairs"})
    shards.append({"kind": "insitu", "n": 30 if tier == "quick" else 300})
    return shards


def floors(tier):
    return {
        "evaluations": 400000,
        "strata": ["sweep", "random", "insitu-export", "pairs-and-long-strings"],
        "events": {"uni2tex": 400000, "uni2tex.judged_full": 400000, "uni2tex.commands_seen": 1000},
        "distinct_nontrivial": 1000,
    }


def _interesting(ch):
    return bool(unicodedata.decomposition(ch)) or unicodedata.category(ch).startswith("M")


def _drain(ctx, mon, stratum, before_calls, before_viol, n_nontrivial=None, inputs=None):
    nv = mon.n_violations - before_viol
    n = mon.calls - before_calls
    if nv:
        for v in mon.violations[-min(nv, 30):]:
            ctx.judge(stratum, VIOLATED, {"text": v["arg"], "codepoints": v["codepoints"]}, finding=v,
                      key="uni2tex:" + v["reason"].split(":")[0])
        extra = nv - min(nv, 30)
        if extra > 0:
            ctx.evaluations += extra
            ctx.verdicts[VIOLATED] += extra
            ctx.n_violations += extra
            ctx.stratum(stratum, generated=extra, judged=extra)
    ctx.bulk_held(stratum, n - nv)


def worker(ctx, shard):
    from vmon.mon_tex import TexMonitor

    mon = TexMonitor(keep=60).install()
    import labella.tex as X

    kind = shard["kind"]
    if kind == "sweep":
        contexts = CONTEXTS_QUICK if ctx.tier == "quick" else CONTEXTS_THOROUGH
        nontriv = 0
        c0, v0 = mon.calls, mon.n_violations
        for cp in range(shard["lo"], shard["hi"]):
            if 0xD800 <= cp <= 0xDFFF:
                continue
            ch = chr(cp)
            it = _interesting(ch)
            for c in contexts:
                s = c.replace("%s", ch)
                try:
                    X.uni2tex(s)
                except Exception:
                    pass
                if it or c.startswith(("é", "ö")) or c.endswith("̀"):
                    nontriv += 1
        bad = mon.n_violations - v0
        _drain(ctx, mon, "sweep", c0, v0)
        if not bad:
            ctx.enumerated_nontrivial += nontriv
            if shard["lo"] == 0:
                ctx.sample({"input": "aéb", "output": X.uni2tex("aéb")})
                mon.calls -= 1
    elif kind == "random":
        rng = ctx.rng("random%d" % shard["sub"])
        pools = _pools()
        c0, v0 = mon.calls, mon.n_violations
        for _ in range(shard["n"]):
            s = _rand_string(rng, pools)
            v1 = mon.n_violations
            try:
                out = X.uni2tex(s)
            except Exception:
                out = None
            if mon.n_violations == v1 and any(_interesting(ch) for ch in s):
                ctx.digests.add(s)
                if len(ctx.samples) < 3 and len(s) < 30:
                    ctx.samples.append({"input": s, "output": out})
        _drain(ctx, mon, "random", c0, v0)
    elif kind == "pairs":
        # every ASCII letter/digit/punctuation and every precomposed Latin letter, followed by each of the 15 table
        # marks (and by two of them); long strings; line breaks and control characters
        import string

        marks = _pools()["marks"]
        bases = string.ascii_letters + string.digits + " .,;:!?-()$%&#_^~'\"`" + _pools()["pre"] + "ıȷßæøłđ"
        c0, v0 = mon.calls, mon.n_violations
        nontriv = 0
        for b in bases:
            for m1 in marks:
                for s in (b + m1, "x" + b + m1 + "y", b + m1 + marks[0], b + marks[-1] + m1):
                    try:
                        X.uni2tex(s)
                    except Exception:
                        pass
                    nontriv += 1
        for s in ("", " ", "\n", "\t ", "0", "\u0301", "\u0301\u0301", "a\u0301\u0301\u0301", "\u00e9" * 3):
            try:
                X.uni2tex(s)
            except Exception:
                pass
            nontriv += 1
        rng = ctx.rng("pairs")
        pools = _pools()
        for k in range(300):
            n = rng.choice([200, 500, 2000])
            unit = _rand_string(rng, pools).replace("\\", "").replace("{", "").replace("}", "") or "é"
            s = (unit * (n // max(1, len(unit)) + 1))[:n]
            if k % 3 == 0:
                s = s[: n // 2] + rng.choice(["\n", "\r\n", "\t", "\x00", "\x1f", "\u2028"]) + s[n // 2:]
            try:
                X.uni2tex(s)
            except Exception:
                pass
            nontriv += 1
        bad = mon.n_violations - v0
        _drain(ctx, mon, "pairs-and-long-strings", c0, v0)
        if not bad:
            ctx.enumerated_nontrivial += nontriv
    elif kind == "insitu":
        _insitu(ctx, mon, shard)
    ctx.event("uni2tex", mon.calls)
    ctx.event("uni2tex.judged_full", mon.judged_full)
    ctx.event("uni2tex.judged_basic", mon.judged_basic)
    ctx.event("uni2tex.commands_seen", mon.commands)
    ctx.event("uni2tex.raised", mon.raised)
    mon.uninstall()


def _pools():
    ascii_plain = "abcdefghijklmnopqrstuvwxyz ABCXYZ0123456789.,;:!?-()"
    tex_special = "$%&#_^~"
    ambiguous = "\\{}"
    marks_table = "".join(chr(c) for c in (0x300, 0x301, 0x302, 0x308, 0x30B, 0x303, 0x327, 0x328, 0x304, 0x331, 0x307, 0x323, 0x30A, 0x306, 0x30C))
    marks_other = "̸ְً̛̤̰̉͂⃗҃ͅाः"
    precomposed = "".join(
        chr(c) for c in range(0xC0, 0x250) if unicodedata.decomposition(chr(c)) and not unicodedata.decomposition(chr(c)).startswith("<")
    ) + "".join(chr(c) for c in range(0x1E00, 0x1F00)) + "ǖǘấộ΅ΐΫйё"
    compat = "… ½²³¹ﬁﬂ™ΩKÅⅠ㎒Ａªº  ‑ᴬʰ"
    cjk = "漢字あア가한中文"
    emoji = "\U0001f600\U0001f680❤️\U0001f1e9\U0001f1ea\U0001f468‍\U0001f469"
    greek_cyr = "αβΩЖжאا"
    return {
        "ascii": ascii_plain, "tex": tex_special, "amb": ambiguous, "marks": marks_table, "marks_other": marks_other,
        "pre": precomposed, "compat": compat, "cjk": cjk, "emoji": emoji, "gc": greek_cyr,
    }


def _rand_string(rng, P):
    n = rng.choice([1, 1, 2, 3, 5, 8, 13, 25])
    out = []
    style = rng.random()
    for _ in range(n):
        r = rng.random()
        if style < 0.08:
            out.append(rng.choice(P["ascii"] + P["tex"] + (P["amb"] if rng.random() < 0.3 else "")))
        elif r < 0.30:
            out.append(rng.choice(P["ascii"]))
        elif r < 0.36:
            out.append(rng.choice(P["tex"]))
        elif r < 0.38 and style > 0.8:
            out.append(rng.choice(P["amb"]))
        elif r < 0.55:
            out.append(rng.choice(P["pre"]))
        elif r < 0.75:
            base = rng.choice(P["ascii"] + P["gc"] + P["pre"] + P["cjk"])
            k = rng.choice([1, 1, 1, 2, 2, 3])
            out.append(base + "".join(rng.choice(P["marks"] if rng.random() < 0.8 else P["marks_other"]) for _ in range(k)))
        elif r < 0.80:
            out.append(rng.choice(P["marks"] + P["marks_other"]))
        elif r < 0.88:
            out.append(rng.choice(P["compat"]))
        elif r < 0.94:
            out.append(rng.choice(P["cjk"] + P["gc"]))
        else:
            out.append(rng.choice(P["emoji"]))
    s = "".join(out)
    q = rng.random()
    if q < 0.08:
        s = rng.choice(P["marks"]) + s  # leading mark
    elif q < 0.20:
        s = s + rng.choice(P["marks"])  # trailing mark
    return s


def _text_macros(doc, bodies_only=True):
    """The \\def\\text<ID>... macros of a TikZ document; a body may span several lines (label texts keep their line breaks),
    it ends where the braces balance (label texts of this workload contain neither braces nor backslashes)."""
    import re

    out = []
    lines = doc.split("\n")
    i = 0
    while i < len(lines):
        m = re.match(r"^\\def\\text[A-Za-z]+(.*)$", lines[i], flags=re.S)
        if m:
            buf = m.group(1)
            while buf.count("{") != buf.count("}") and i + 1 < len(lines) and not lines[i + 1].startswith("\\begin{document}"):
                i += 1
                buf += "\n" + lines[i]
            out.append(buf)
        i += 1
    if bodies_only:
        return [b[1:-1] for b in out if b.startswith("{") and b.endswith("}")]
    return out


def _insitu(ctx, mon, shard):
    """Label texts of real TikZ exports, as the emitter hands them to uni2tex."""
    import re

    from labella.scale import LinearScale
    from labella.timeline import TimelineTex

    rng = ctx.rng("insitu")
    pools = _pools()
    for k in range(shard["n"]):
        n = rng.choice([1, 2, 3, 5, 9])
        texts = []
        for i in range(n):
            s = _rand_string(rng, pools)
            if any(c in s for c in "\\{}") or not s.strip() or "\r" in s:
                s = "L%d" % i
            if rng.random() < 0.08:
                s = s + rng.choice([" \n", "\u00a0\n", "\t\n"]) + "second line"  # white space right before a line break
            if rng.random() < 0.15:
                s = rng.choice(pools["marks"]) + s  # a label that starts with a combining accent
            if rng.random() < 0.2:
                s = s + rng.choice([" <ID>", " <TEXT>", " %s", " {}", " #1"]).replace("{}", "()")  # looks like a template slot
            texts.append(s)
        data = [{"time": float(10 * i + rng.randrange(0, 5)), "width": 30 + i, "text": t} for i, t in enumerate(texts)]
        opts = {"scale": LinearScale(), "direction": rng.choice(["up", "down", "left", "right"]),
                "initialWidth": 800, "initialHeight": 800, "labella": {"maxPos": 760}}
        custom = k % 5 == 2
        if custom:
            # the label text is what the caller's textFn returns (here: two fields of the row combined), not the "text" field
            for i, d in enumerate(data):
                d["who"] = rng.choice(["é", "ñ", "Z", "ü", "a\u0301"])
            opts["textFn"] = lambda d: "%s: %s" % (d["who"], d["text"])
            texts = ["%s: %s" % (d["who"], d["text"]) for d in data]
        case = {"texts": texts, "direction": opts["direction"], "custom_textFn": custom}
        c0, v0 = mon.calls, mon.n_violations
        try:
            tlx = TimelineTex(data, options=opts)
            doc = tlx.export()
            if k % 7 == 3:
                # the document as it is WRITTEN: export(filename, build_pdf=False), read back as UTF-8
                import os
                import tempfile

                with tempfile.TemporaryDirectory(prefix="vmon-c19-") as tmp:
                    path = os.path.join(tmp, "t.tex")
                    tlx.export(path, build_pdf=False)
                    with open(path, encoding="utf-8") as fh:
                        doc = fh.read()
                ctx.path("macros-read-back-from-the-written-file")
        except Exception as e:
            if mon.n_violations > v0:
                ctx.judge("insitu-export", VIOLATED, case, finding=mon.violations[-1], key="uni2tex:raised in export")
            else:
                ctx.judge("insitu-export", INCONCLUSIVE, case, reason="export raised %s outside uni2tex (C11's concern)" % type(e).__name__)
            continue
        defs = _text_macros(doc)
        # the export boundary itself: every label text must be present as the body of one \def\text<ID>{...} macro,
        # converted as the property says - whether or not the emitter routed it through uni2tex label by label
        from oracles import texinv

        raw = _text_macros(doc, bodies_only=False)
        bad_macro = [r for r in raw if not (r.startswith("{") and r.endswith("}"))]
        bodies = [r[1:-1] for r in raw if r.startswith("{") and r.endswith("}")]
        unmatched = []
        pool = list(bodies)
        for t in texts:
            hit = next((b for b in pool if texinv.judge(t, b)[0]), None)
            if hit is None:
                unmatched.append(t)
            else:
                pool.remove(hit)
        if bad_macro or unmatched or len(raw) != n:
            ctx.judge("insitu-export", VIOLATED, case, finding={"rule": "label text does not reach the TikZ document intact", "malformed_macros": bad_macro[:2],
                                                                 "texts_without_a_matching_macro": unmatched[:2], "macro_bodies": bodies[:4]},
                      key="export:label-text-macro")
            continue
        if mon.n_violations > v0:
            ctx.judge("insitu-export", VIOLATED, case, finding=mon.violations[-1], key="uni2tex:" + mon.violations[-1]["reason"].split(":")[0])
        elif mon.calls - c0 < n or len(defs) != n:
            ctx.judge("insitu-export", INCONCLUSIVE, case, reason="export did not route %d label texts through the monitored uni2tex (%d calls, %d defs)" % (n, mon.calls - c0, len(defs)))
        else:
            ctx.judge("insitu-export", HELD, case, nontrivial=any(_interesting(ch) for t in texts for ch in t))


def replay(ctx, witness):
    from vmon.mon_tex import TexMonitor

    mon = TexMonitor().install()
    import labella.tex as X

    case = witness.get("case") or {}
    texts = [case["text"]] if "text" in case else case.get("texts", [])
    for t in texts:
        try:
            X.uni2tex(t)
        except Exception:
            pass
    if mon.n_violations:
        ctx.judge("replay", VIOLATED, case, finding=mon.violations[0])
    elif mon.calls:
        ctx.judge("replay", HELD, case)
    else:
        ctx.judge("replay", INCONCLUSIVE, case, reason="no call")
    mon.uninstall()
