"""Workload R helper: run the repository's own test-suite with every monitor installed
(vmon/pytest_plugin.py) in a subprocess and return the monitors' report."""

import os
import subprocess
import tempfile

from vmon.core import PY, VERIF, jloads, repo_path, worker_env


def run(timeout=240):
    fd, path = tempfile.mkstemp(prefix="workloadR-", suffix=".json", dir=os.path.join(VERIF, "out"))
    os.close(fd)
    env = worker_env({"VMON_REPORT": path, "VMON_REACH": "0"})
    try:
        p = subprocess.run([PY, "-m", "pytest", "-q", "--timeout=30", "-p", "vmon.pytest_plugin", "-p", "no:cacheprovider", os.path.join(repo_path(), "tests")],
                           cwd=repo_path(), env=env, capture_output=True, text=True, timeout=timeout)
        if not os.path.getsize(path):
            return None, "no report written (pytest exit %s): %s" % (p.returncode, (p.stdout + p.stderr)[-300:])
        rep = jloads(open(path).read())
        rep["pytest_exit"] = p.returncode
        return rep, None
    except subprocess.TimeoutExpired:
        return None, "test run timed out"
    finally:
        try:
            os.remove(path)
        except OSError:
            pass


def judge(ctx, part, stratum="repo-tests-under-monitors"):
    """part: 'linear' | 'time' | 'calendar' | 'solver' | 'layout:c01' ...  Records one evaluation per judged event group."""
    from vmon.core import HELD, INCONCLUSIVE, VIOLATED

    rep, err = run()
    if rep is None:
        ctx.judge(stratum, INCONCLUSIVE, {"workload": "R"}, reason=err)
        return
    if part in ("linear", "time", "calendar"):
        sec = rep[part]
        n = sum(sec.get("events", sec.get("calls", {})).values())
        if sec["n_violations"]:
            ctx.judge(stratum, VIOLATED, {"workload": "R", "monitor": part}, finding=sec["violations"][:3], key="repo-tests:" + part)
        elif n:
            ctx.bulk_held(stratum, n)
        else:
            ctx.judge(stratum, INCONCLUSIVE, {"workload": "R"}, reason="monitor %s saw no event during the repo's tests" % part)
    elif part == "solver":
        sv = rep["solver"]
        if sv["violated"]:
            ctx.judge(stratum, VIOLATED, {"workload": "R", "monitor": "solver"}, finding=sv["violated"][:2], key="repo-tests:solver")
        elif sv["held"]:
            ctx.bulk_held(stratum, sv["held"])
        else:
            ctx.judge(stratum, INCONCLUSIVE, {"workload": "R"}, reason="no solve() seen during the repo's tests")
    elif part.startswith("layout:"):
        ly = rep["layout"]
        probs = ly[part.split(":")[1] + "_problems"]
        if probs:
            ctx.judge(stratum, VIOLATED, {"workload": "R", "monitor": part}, finding=probs[:2], key="repo-tests:" + part)
        elif ly["layers"]:
            ctx.bulk_held(stratum, ly["layers"])
        else:
            ctx.judge(stratum, INCONCLUSIVE, {"workload": "R"}, reason="no layer seen during the repo's tests")
    ctx.extra["workload_R_pytest_exit"] = rep.get("pytest_exit")
