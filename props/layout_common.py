"""Shared driver for C01-C03: runs Wlayout cases through the real Force.compute()
under the H1/H2/H4 monitors and judges every recorded layer with the oracles of
oracles/layout.py.  `which` selects the property whose verdicts are reported."""

from fractions import Fraction as F

from oracles import layout as OL
from vmon.core import HELD, INCONCLUSIVE, OUT_OF_SCOPE, VIOLATED, BudgetExceeded
from workloads import layout as WL


def plan(tier, seed, quick_n=220, thorough_n=3000, quick_k=15, thorough_k=48, quick_huge=(40, 60)):
    k = quick_k if tier == "quick" else thorough_k
    n = quick_n if tier == "quick" else thorough_n
    shards = [{"kind": "layout", "sub": i, "n": n} for i in range(k)]
    shards.append({"kind": "clusters"})
    shards.append({"kind": "direct-solver", "n": 150 if tier == "quick" else 3000})
    # one layer with thousands of labels in many crowded groups (each <= 100 labels, so the recursion finding of C11 is not in
    # play): whatever the solver does per label, it has to finish the job
    shards.insert(0, {"kind": "huge-layer", "groups": quick_huge[0], "size": quick_huge[1]})  # first: it is the longest shard
    if tier != "quick":
        shards.append({"kind": "huge-layer", "groups": 52, "size": 100})
        shards.append({"kind": "huge-layer", "groups": 100, "size": 80})
    shards.append({"kind": "insitu-exports", "n": 200 if tier == "quick" else 3000})
    return shards


def engine_bounds(opts):
    return opts.get("minPos", 0), opts.get("maxPos", None), opts.get("nodeSpacing", 3)


def layer_features(items, opts, li, nlayers, tag):
    f = []
    mn, mx, sp = engine_bounds(opts)
    f.append("single-layer" if nlayers == 1 else "multi-layer")
    if li > 0:
        f.append("deeper-layer")
    if any(a["stub"] and b["stub"] for a, b in zip(items, items[1:])):
        f.append("stub-stub-neighbours")
    if mn is None and mx is None:
        f.append("no-bounds")
    elif mx is None:
        f.append("lower-only")
    elif mn is None:
        f.append("upper-only")
    else:
        f.append("both-bounds-fit" if OL.required(items, sp) <= F(mx) - F(mn) else "both-bounds-unfit")
    if any(float(it["w"]) != int(it["w"]) for it in items):
        f.append("non-integer-widths")
    if any(float(it["t"]) * 2 == int(float(it["t"]) * 2) and float(it["t"]) != int(it["t"]) for it in items):
        f.append("half-integer-targets")
    if len(set(it["t"] for it in items)) < len(items):
        f.append("tied-targets")
    if len(items) >= 100:
        f.append("layer>=100")
    if "stale-nodes" in tag:
        f.append("stale-nodes")
    if mx == 0 and mx is not None:
        f.append("upper-bound-at-origin")
    if mn == 0 and "+moved" in tag:
        f.append("lower-bound-moved-to-origin")
    if items and all(float(it["t"]) < 0 for it in items):
        f.append("all-targets-negative")
    if tag.startswith("near-touching"):
        f.append("near-touching")
    if tag.startswith("packing-"):
        f.append(tag.split("/")[0])
    return f


def judge_layers(ctx, rec, case, tag, which):
    opts = rec["options"]
    mn, mx, sp = engine_bounds(opts)
    nl = len(rec["layers"])
    if rec["exc"] is not None:
        ctx.judge("compute", VIOLATED, case, finding={"reason": "Force.compute raised " + rec["exc"]}, key="compute-raised " + rec["exc"])
        return
    if rec.get("target_problems"):
        ctx.judge("compute", VIOLATED, case, finding={"reason": "layer item without its stub", "detail": rec["target_problems"][:3]}, key="item-without-stub-below")
        return
    if rec["moved_after_solve"]:
        ctx.judge("compute", VIOLATED, case, finding={"reason": "a layer's positions changed after its own solve", "moved": rec["moved_after_solve"]}, key="layer-moved-after-solve")
        return
    for li, L in enumerate(rec["layers"]):
        items = L["items"]
        if items is None:
            ctx.judge("layer", INCONCLUSIVE, case, reason="monitor could not record the layer: %s" % L.get("error"))
            continue
        if not items:
            continue
        feats = layer_features(items, opts, li, nl, tag)
        wcase = dict(case, layer=li)
        if which == "C01":
            probs = OL.judge_c01(items, sp)
            nontriv = any(it["pos"] != round(it["t"]) for it in items)
            verdict = VIOLATED if probs else HELD
            info = {}
        elif which == "C02":
            verdict, probs, info = OL.judge_c02(items, sp, mn, mx)
            # ties: the chain order is taken as given only if it is target-sorted (C01.i)
            if verdict != OUT_OF_SCOPE and any(a["t"] > b["t"] for a, b in zip(items, items[1:])):
                verdict, probs = VIOLATED, [{"rule": "chain-not-target-sorted"}]
            nontriv = bool(info.get("moved")) and info.get("blocks", len(items)) < len(items)
        else:
            verdict, probs, info = OL.judge_c03(items, sp, mn, mx)
            nontriv = bool(info.get("wall_tight")) or info.get("fits") is False
            if info.get("fits") is False:
                ctx.extra["spills_observed"] = ctx.extra.get("spills_observed", 0) + 1
        primary = feats[2] if len(feats) > 2 and feats[1] in ("deeper-layer",) else feats[1] if len(feats) > 1 else feats[0]
        primary = next((x for x in feats if x in ("no-bounds", "lower-only", "upper-only", "both-bounds-fit", "both-bounds-unfit")), feats[0])
        if verdict == VIOLATED:
            finding = {"problems": probs[:3], "layer_index": li, "n_items": len(items), "info": _floatify(info),
                       "items": items if len(items) <= 14 else items[:6] + [{"...": len(items) - 6}],
                       "engine_options": {"minPos": mn, "maxPos": mx, "nodeSpacing": sp}, "options_passed_to_layer_solver": L["options_passed"]}
            ctx.judge(primary, VIOLATED, wcase, finding=finding, key=probs[0].get("rule", "layer"))
        elif verdict == OUT_OF_SCOPE:
            ctx.judge(primary, OUT_OF_SCOPE, None)
        else:
            sample = None
            if nontriv and len(ctx.samples) < 3 and len(items) <= 8:
                sample = {"engine_options": {"minPos": mn, "maxPos": mx, "nodeSpacing": sp}, "layer_index": li, "items": items}
            ctx.judge(primary, HELD, sample, nontrivial=nontriv, dig=_dig(items, mn, mx, sp))
            for f in feats:
                if f != primary:
                    ctx.stratum(f, generated=1, judged=1, held=1)


def _floatify(d):
    out = {}
    for k, v in d.items():
        out[k] = float(v) if isinstance(v, F) else v
    return out


def _dig(items, mn, mx, sp):
    import hashlib

    return hashlib.sha1(repr(([(i["t"], i["w"], i["stub"]) for i in items], mn, mx, sp)).encode()).hexdigest()[:16]


PARTIAL_OPTIONS = [None, {}, {"minPos": None}, {"maxPos": 300}, {"maxPos": 300, "minPos": -40}, {"nodeSpacing": 0}, {"nodeSpacing": 7.5, "minPos": 25},
                   {"minPos": None, "maxPos": None}, {"maxPos": 120}, {"lineSpacing": 60}, {"lineSpacing": 0, "maxPos": 500}]


def gen_direct_sequence(rng):
    """The layer solver called directly, several times in one process, each time with a PARTIAL option dict: every key
    that is left out takes its documented default (lower bound 0, no upper bound, spacing 3, line spacing 2)."""
    calls = []
    for _ in range(rng.choice([2, 3, 4])):
        n = rng.choice([1, 2, 3, 5, 8, 15])
        model = rng.choice(["integers", "clusters", "uniform", "ties"])
        pos = WL.gen_positions(rng, n, model, lo=-100.0, hi=400.0)
        labels = [{"pos": p, "w": rng.choice([10, 33.5, 50, 20])} for p in pos]
        calls.append({"labels": labels, "options": rng.choice(PARTIAL_OPTIONS)})
    return {"calls": calls}


def direct_sequence(ctx, mon, case, which):
    import labella.removeOverlap as R

    for i, c in enumerate(case["calls"]):
        nodes = WL.make_nodes(c["labels"])
        passed = None if c["options"] is None else dict(c["options"])
        exc = None
        try:
            R.removeOverlap(nodes, passed)
        except BudgetExceeded:
            exc = "BudgetExceeded"
        except Exception as e:
            exc = type(e).__name__
        layers, mon.orphan_layers = mon.orphan_layers, []
        wcase = {"calls": case["calls"][: i + 1], "judged_call": i}
        if "lineSpacing" in (c["options"] or {}):
            ctx.judge("direct-solver", OUT_OF_SCOPE, None)  # the line spacing is fixed in the statement; the call still happens
            continue
        if exc is None and len(layers) != 1:
            ctx.judge("direct-solver", INCONCLUSIVE, wcase, reason="monitor saw %d layer solves for one direct call" % len(layers))
            continue
        rec = {"options": dict(c["options"] or {}), "layers": layers, "exc": exc, "moved_after_solve": [], "target_problems": []}
        judge_layers(ctx, rec, wcase, "direct-solver" + ("/after-other-options" if i else ""), which)
        ctx.stratum("direct-solver" + ("-after-other-options" if i else "-first-call"), generated=1, judged=1, held=1)


def run_case(ctx, mon, labels, opts, tag, which, stale=None):
    from labella.force import Force

    case = {"labels": labels, "options": opts, "tag": tag, "stale": stale}
    keys = sorted(opts)
    hv = hash(repr(labels[:3]))
    nodes = WL.make_nodes(labels)
    handed_over = False
    as_fraction = hv % 16 == 5 and all(opts.get(k) is None or float(opts[k]) == int(opts[k]) for k in ("minPos", "maxPos"))
    if as_fraction:
        # integral bounds handed over as exact rationals (a numeric type that is neither int nor float)
        opts = dict(opts)
        for k in ("minPos", "maxPos"):
            if opts.get(k) is not None:
                opts[k] = F(int(opts[k]))
        ctx.path("bounds-as-fractions")
    if hv % 8 == 3 and len(labels) <= 60 and not stale:
        # the engine laid the same labels out under another configuration before; set_options() then compute() again
        other = dict(opts, nodeSpacing=0 if opts.get("nodeSpacing") else 9, density=0.3 if opts.get("density", 0.85) > 0.5 else 1.0)
        f = Force(other)
        f.nodes(nodes)
        try:
            f.compute()
        except Exception:
            pass
        mon.drain()
        f.set_options(dict(opts))
        handed_over = True  # no second nodes() call: the engine already holds these labels
        ctx.path("recomputed-after-set-options")
    elif len(keys) >= 2 and hv % 6 == 0:
        # the same options given in two calls: some to the constructor, the rest to set_options()
        f = Force({k: opts[k] for k in keys[::2]})
        f.set_options({k: opts[k] for k in keys[1::2]})
        ctx.path("options-in-two-calls")
    else:
        f = Force(dict(opts))
    if stale:
        # the same label objects were laid out before by another engine/configuration (stale stubs, layers, positions)
        g = Force(dict(stale))
        g.nodes(nodes)
        try:
            g.compute()
        except Exception:
            pass
        mon.drain()
        if hv % 3 == 1:
            # the caller lays out shallow copies (copy.copy) of the label objects of that finished layout
            import copy as _copy

            nodes = [_copy.copy(n) for n in nodes]
            ctx.path("shallow-copies-of-laid-out-labels")
    if not handed_over:
        f.nodes(nodes)
    try:
        f.compute()
    except BudgetExceeded:
        pass
    except Exception:
        pass
    recs = mon.drain()
    if len(recs) != 1:
        ctx.judge("compute", INCONCLUSIVE, case, reason="monitor saw %d compute() calls" % len(recs))
        return
    # the layers are judged against the options the engine holds; those must be the ones the caller gave (however they
    # were handed over), or the engine would be consistent with a configuration nobody asked for
    held = recs[0]["options"]
    lost = {k: (opts[k], held.get(k, "<absent>")) for k in opts if held.get(k, "<absent>") != opts[k]}
    if lost:
        ctx.judge("compute", VIOLATED, case, finding={"reason": "the engine does not hold the options it was given", "given_vs_held": {k: [repr(a), repr(b)] for k, (a, b) in lost.items()}}, key="engine-options-lost")
        return
    judge_layers(ctx, recs[0], case, tag, which)


def insitu_case(ctx, mons, spec, which):
    from props import export_common as EC

    res = EC.export_one(spec, "svg", mons, parse=False)
    rec = res.get("compute_record")
    if res["exc"] is not None or rec is None:
        ctx.judge("insitu-exports", OUT_OF_SCOPE, None)
        return
    ctx.stratum("insitu-exports", generated=1, judged=1, held=1)
    judge_layers(ctx, rec, {"spec": spec}, "insitu-export", which)


def shrink_witness(ctx, mon, which, first_new, max_runs=120):
    """Delta-debugging pass over the label list of the most recent witness of this shard: drop chunks of
    labels while the same rule still fires.  Bounded by max_runs re-executions; the unshrunk case is kept."""
    from vmon.core import Ctx

    if not ctx.violations or ctx.extra.get("shrunk", 0) >= 2 or first_new >= len(ctx.violations):
        return
    w = ctx.violations[first_new]
    case = w.get("case") or {}
    labels = case.get("labels")
    if not labels or len(labels) <= 6 or w.get("key") in (None, "compute-raised RecursionError"):
        return
    key = w["key"]
    runs = [0]

    def fails(cand):
        runs[0] += 1
        sub = Ctx(ctx.pid, ctx.tier, ctx.seed)
        run_case(sub, mon, cand, case["options"], case.get("tag", ""), which, stale=case.get("stale"))
        return any(v.get("key") == key for v in sub.violations), sub

    cur = list(labels)
    chunk = len(cur) // 2
    best_sub = None
    while chunk >= 1 and runs[0] < max_runs:
        i = 0
        while i < len(cur) and runs[0] < max_runs:
            cand = cur[:i] + cur[i + chunk:]
            if cand:
                bad, sub = fails(cand)
                if bad:
                    cur, best_sub = cand, sub
                    continue
            i += chunk
        chunk //= 2
    if best_sub is not None and len(cur) < len(labels):
        v = next(v for v in best_sub.violations if v.get("key") == key)
        w["unshrunk_case"] = {"n_labels": len(labels), "labels": labels if len(labels) <= 40 else "regenerate from seed/shard"}
        w["case"] = v["case"]
        w["finding"] = v["finding"]
        w["shrunk"] = {"from_labels": len(labels), "to_labels": len(cur), "re_executions": runs[0]}
        # the other layers of the same unshrunk case are the same defect: keep the shrunk witness only
        del ctx.violations[first_new + 1:]
    ctx.extra["shrunk"] = ctx.extra.get("shrunk", 0) + 1


def worker(ctx, shard, which):
    from vmon.mon_layout import LayoutMonitor

    mon = LayoutMonitor().install()
    if shard["kind"] == "layout":
        rng = ctx.rng("layout%d" % shard["sub"])
        for _ in range(shard["n"]):
            if ctx.should_stop():
                break
            labels, opts, tag = WL.gen_case(rng, heavy_ok=(ctx.tier == "thorough"))
            stale = None
            if rng.random() < 0.2 and len(labels) <= 60:  # the stale layout is a second, often many-layered compute
                stale = rng.choice([{"maxPos": 200, "density": 0.3}, {"maxPos": 400, "algorithm": "simple", "density": 0.5}, {"maxPos": 120, "stubWidth": 4}, {"algorithm": "none"}])
                tag += "+stale-nodes"
            nv, nw = ctx.n_violations, len(ctx.violations)
            run_case(ctx, mon, labels, opts, tag, which, stale=stale)
            if ctx.n_violations > nv:
                shrink_witness(ctx, mon, which, nw)
    elif shard["kind"] == "clusters":
        # one mutually conflicting cluster of n labels, n = 1..200 (thorough: every n; quick: a ladder)
        ns = range(1, 201) if ctx.tier == "thorough" else [1, 2, 3, 5, 10, 25, 50, 100, 150, 200]
        rng = ctx.rng("clusters")
        for n in ns:
            if ctx.should_stop():
                break
            w = rng.choice([10, 33.5, 50])
            labels = [{"pos": 500.0 + rng.choice([0, 0, 0.5, -0.5]), "w": w} for _ in range(n)]
            opts = {"algorithm": "none", "minPos": rng.choice([None, 0]), "nodeSpacing": rng.choice([0, 3])}
            run_case(ctx, mon, labels, opts, "clusters/%d" % n, which)
    elif shard["kind"] == "insitu-exports":
        # the layer problems that real timelines create (padded label sizes, scale-derived positions)
        from props import export_common as EC
        from workloads import tl as TL

        class _M(object):
            layout = mon

        rng = ctx.rng("insitu-exports")
        for _ in range(shard["n"]):
            if ctx.should_stop():
                break
            spec = TL.gen_spec(rng)
            insitu_case(ctx, _M, spec, which)
    elif shard["kind"] == "huge-layer":
        rng = ctx.rng("huge-layer")
        g, size = shard["groups"], shard["size"]
        # narrow labels: a group pushed inside by a bound must not reach its neighbour group, or the merged block would exceed
        # the ~240 variables of the recursion finding (K1 of C11), which is not what this shard is about
        w = rng.choice([10, 20, 12.5])
        labels = []
        for k in range(g):
            c = 1000.0 + k * 4000.0
            # every other group (for C03: every group) has all its labels at one data position: equally violated constraints,
            # so the wall constraints are not settled before the rest
            tied = k % 2 == 0 or which == "C03"
            labels += [{"pos": c + (0.0 if tied else rng.uniform(-5, 5)), "w": w} for _ in range(size)]
        span = g * 4000.0
        # the data position of the last group lies right at the upper bound, that of the first right at the lower one: both
        # groups have to be pushed inside as a whole (their wall constraints start out less violated than anything else)
        opts = {"algorithm": "none", "minPos": 999.0, "maxPos": 1000.0 + (g - 1) * 4000.0 + 1.0, "nodeSpacing": 3}
        rng.shuffle(labels)
        run_case(ctx, mon, labels, opts, "huge-layer/bounded/none", which)
        ctx.event("huge_layer_labels", len(labels))
    elif shard["kind"] == "direct-solver":
        rng = ctx.rng("direct-solver")
        for _ in range(shard["n"]):
            if ctx.should_stop():
                break
            direct_sequence(ctx, mon, gen_direct_sequence(rng), which)
    elif shard["kind"] == "replay-case" and "calls" in shard["case"]:
        direct_sequence(ctx, mon, shard["case"], which)
    elif shard["kind"] == "replay-case" and "spec" in shard["case"]:
        from props import export_common as EC

        class _M(object):
            layout = mon

        insitu_case(ctx, _M, shard["case"]["spec"], which)
    elif shard["kind"] == "replay-case":
        c = shard["case"]
        run_case(ctx, mon, c["labels"], c["options"], c.get("tag", "replay"), which, stale=c.get("stale"))
    for k, v in mon.events.items():
        ctx.event(k, v)
    # layers are observed through the removeOverlap hook or, if the engine no longer goes through it, from the
    # engine's own reported layering (the property's observation boundary)
    ctx.event("layers_observed", mon.events["removeOverlap"] + mon.events["layers_from_boundary"])
    mon.uninstall()


def replay(ctx, witness, which):
    c = witness.get("case") or {}
    worker(ctx, {"kind": "replay-case", "case": c}, which)
