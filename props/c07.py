"""C07 - every datum is drawn once, at its true time, linked to its own label.

Deciding monitors: H10 (export boundary) + H1 (stub positions / layer of every label,
in situ) + the document parsers; oracle: oracles/export.judge_c07 over the caller's
original spec.
"""

import datetime as dt

from oracles import export as OX
from props import export_common as EC
from vmon.core import HELD, INCONCLUSIVE, VIOLATED
from workloads import tl as TL

PROPERTY_ID = "C07"
LEVEL = "exploration"
RULE = (
    "Wtl: seeded specs (1-40 data; floats on a linear scale; date, datetime with time of day, time and mixed values on the time scale or the "
    "default scale; unsorted, tied; spans 1 ms..300 y; explicit distinct widths; texts none/ASCII/XML-special/accented/CJK/emoji) x direction "
    "x sizes/margins x layerGap x labelPadding x engine options x showTicks/showBorder x colour option forms x explicit covering domain x "
    "textFn/timeFn. Each spec is exported by both back-ends (fresh deep copies); one evaluation = one exported document, parsed and judged "
    "against the caller's original data. Non-trivial = export with >= 3 data, >= 2 distinct times and at least one displaced label; "
    "distinct = distinct (spec, back-end)."
)
ASSUMPTIONS = [
    "label widths are always explicit (automatic measurement shells out to LaTeX, absent here); TikZ is parsed as text, never compiled",
    "in left/right directions either assignment of the two padding pairs and either orientation of the label rectangle is accepted",
    "time tick texts are judged for consistency with the instant at their position under the documented formats (year, month name, '%b %d', '%a %d', '%I %p', '%H:%M', ':%S')",
]


def plan(tier, seed):
    k = 14 if tier == "quick" else 64
    return [{"kind": "tl", "sub": i, "n": 150 if tier == "quick" else 1500} for i in range(k)]


def floors(tier):
    strata = ["%s/%s" % (b, d) for b in ("svg", "tikz") for d in TL.DIRECTIONS] + ["scale:linear", "scale:time", "scale:default", "multi-layer", "single-layer",
              "time:datetime-with-time-of-day", "time:date", "time:float", "text:xml", "text:accent", "text:cjk", "second-export-of-the-same-timeline"]
    return {"evaluations": 600, "strata": strata, "events": {"Timeline.__init__": 600, "TimelineSVG.export": 300, "TimelineTex.export": 300, "Force.compute": 600},
            "distinct_nontrivial": 100, "max_inconclusive_frac": 0.01}


def features(spec, res):
    f = []
    o = spec["options"]
    f.append("scale:" + o.get("scale", "default"))
    f.append("multi-layer" if (res.get("n_layers") or 1) > 1 else "single-layer")
    ts = [TL.datum_time(spec, d) for d in spec["data"]]
    if any(isinstance(t, dt.datetime) and (t.hour or t.minute or t.second or t.microsecond) for t in ts):
        f.append("time:datetime-with-time-of-day")
    if any(isinstance(t, dt.date) and not isinstance(t, dt.datetime) for t in ts):
        f.append("time:date")
    if any(isinstance(t, dt.time) for t in ts):
        f.append("time:time")
    if any(isinstance(t, float) for t in ts):
        f.append("time:float")
    txt = " ".join(str(TL.datum_text(spec, d) or "") for d in spec["data"])
    if any(c in txt for c in "<&>"):
        f.append("text:xml")
    if any(ord(c) > 0x2E80 for c in txt):
        f.append("text:cjk")
    elif any(ord(c) > 127 for c in txt):
        f.append("text:accent")
    if "domain" in o:
        f.append("explicit-domain")
    return f


def run_spec(ctx, mons, spec):
    today = dt.date.today()
    for kind in ("svg", "tikz"):
        case = {"spec": spec, "backend": kind}
        res = EC.export_one(spec, kind, mons)
        stratum = "%s/%s" % (kind, spec["options"].get("direction", "right"))
        if res["exc"] is None and res.get("timeline") is not None and hash(repr(spec["data"][:2])) % 6 == 0:
            # the same timeline object exported again: the second document is judged like the first (and must equal it)
            first_doc = res["doc"]
            res = EC.export_again(res, kind, mons)
            ctx.stratum("second-export-of-the-same-timeline", generated=1, judged=1, held=1)
            if res["exc"] is None and res["doc"] != first_doc:
                ctx.judge(stratum, VIOLATED, case, finding=[{"rule": "second export of the same timeline differs from the first"}], key="second-export-differs")
                continue
        if res["exc"] is not None:
            # totality is C11's claim; a crash leaves nothing to judge here
            ctx.judge(stratum, INCONCLUSIVE, case, reason="export raised %s (C11)" % res["exc"][0])
            continue
        if res["picture"] is None:
            ctx.judge(stratum, INCONCLUSIVE, case, reason="document not parseable: %s" % res["parse_error"])
            continue
        if res["picture"].defects:
            ctx.judge(stratum, VIOLATED, case, finding=[{"rule": "document-defect", "defects": res["picture"].defects[:4]}], key="document-defect")
            continue
        if EC.uses_time_of_day_inputs(spec) and dt.date.today() != today:
            ctx.judge(stratum, INCONCLUSIVE, case, reason="civil date changed during the case")
            continue
        probs, by_uid = OX.judge_c07(spec, res, kind, EC.data_text_fn(spec), EC.data_time_fn(spec), TL.normalise_time)
        if probs:
            ctx.judge(stratum, VIOLATED, case, finding=probs[:3], key=probs[0]["rule"])
        else:
            ts = set(repr(TL.datum_time(spec, d)) for d in spec["data"])
            nontriv = len(spec["data"]) >= 3 and len(ts) >= 2 and bool(res.get("moved"))
            ctx.judge(stratum, HELD, case if (len(ctx.samples) < 2 and len(spec["data"]) <= 4) else None, nontrivial=nontriv, dig=kind + repr(spec))
            for f in features(spec, res):
                ctx.stratum(f, generated=1, judged=1, held=1)


def worker(ctx, shard):
    mons = EC.Monitors()
    if shard["kind"] == "tl":
        rng = ctx.rng("tl%d" % shard["sub"])
        for _ in range(shard["n"]):
            if ctx.should_stop():
                break
            run_spec(ctx, mons, TL.gen_spec(rng))
    elif shard["kind"] == "replay-case":
        run_spec(ctx, mons, shard["case"]["spec"])
    mons.events(ctx)
    mons.uninstall()


def replay(ctx, witness):
    worker(ctx, {"kind": "replay-case", "case": witness.get("case") or {}})
