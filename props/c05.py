"""C05 - the separation-constraint solver returns a feasible, certified-optimal solution.

Deciding monitor: H3 SolverMonitor records every Solver(...).solve() (instance
snapshot at construction, operation counts, result); the oracle of
oracles/qpcert.py then certifies feasibility, the reported cost and optimality by
weak duality in exact rational arithmetic.  A logical step budget restates
termination.  The layer problems created by real layouts are judged in situ.
"""

import math

from oracles import qpcert as Q
from vmon.core import HELD, INCONCLUSIVE, OUT_OF_SCOPE, VIOLATED, BudgetExceeded

PROPERTY_ID = "C05"
LEVEL = "exploration"
RULE = (
    "direct instances for vpsc.Solver(vs, cs).solve(): n in 1..60; shapes chain, random tree, sparse DAG, dense DAG, layered DAG, star, "
    "with duplicate and transitively redundant constraints; gaps in {0,1,3,U(0,20)}; desired positions tied or U(-100,100); weights "
    "unit / {0.5,1,2,3} / 1e-2..1e10; scales 1 or {0.5,1,2,4}; cyclic variants (15% of edges reversed). Plus, in situ, every layer "
    "problem (chain + 1e10-weight walls) created by Force.compute() on seeded label sets. Each solve() is judged: feasibility "
    "(>= -1e-6), returned cost == cost of positions, optimality gap <= 1e-3 + 1e-9*cost by a dual bound, operations <= 100(n+m)+5e3. "
    "Non-trivial = at least one merge happened and at least one constraint is tight at the solution; distinct = distinct instance."
)
ASSUMPTIONS = [
    "tolerances: feasibility 1e-6, optimality 1e-3 absolute + 1e-9*cost for the float noise of heavy variables (the solver deliberately stops at multipliers >= -1e-4 and cost changes <= 1e-4)",
    "termination is restated as a logical budget of merges+splits+mostViolated calls per solve(); a wall-clock watchdog firing is inconclusive",
    "the library's own code is only used to propose candidate points; every bound is re-evaluated exactly by the oracle",
]

SHAPES = ["chain", "tree", "sparse", "dense", "layered", "star", "dup"]
WCLASS = ["unit", "mild", "wild"]
SCLASS = ["one", "mixed"]


def plan(tier, seed):
    k = 12 if tier == "quick" else 96
    shards = [{"kind": "direct", "sub": i, "n": 500 if tier == "quick" else 3500} for i in range(k)]
    k2 = 6 if tier == "quick" else 48
    shards += [{"kind": "insitu", "sub": i, "n": 40 if tier == "quick" else 500} for i in range(k2)]
    shards += [{"kind": "cyclic", "sub": i, "n": 400 if tier == "quick" else 4000} for i in range(2 if tier == "quick" else 8)]
    shards.append({"kind": "fixtures"})
    shards.append({"kind": "repo-tests", "part": "solver"})
    shards.append({"kind": "pinned"})
    return shards


def floors(tier):
    strata = ["%s/%s/%s" % (a, b, c) for a in SHAPES for b in WCLASS for c in SCLASS] + ["cyclic", "insitu-layer", "fixtures"]
    return {"evaluations": 2000, "strata": strata,
            "events": {"Solver.solve": 2000, "block_invariant": 2000},
            "paths": ["vpsc.split", "vpsc.splitBetween", "vpsc.cycle-flag", "vpsc.merge-left-larger", "vpsc.merge-right-larger"],
            "distinct_nontrivial": 1000, "max_inconclusive_frac": 0.01,
            # K2 is met in 0.4-0.6 % of the executions of this workload (quick and thorough); three times that is not K2 any more
            "max_known_finding_frac": {KEY_DEGENERATE: 0.02}}


# ---------------------------------------------------------------------------
# instance generation


def gen_instance(rng):
    shape = rng.choice(SHAPES)
    wc = rng.choice(WCLASS)
    sc = rng.choice(SCLASS)
    n = rng.choice([1, 2, 3, 4, 5, 6, 8, 10, 12, 15, 20, 25, 30, 40, 50, 60])
    if shape in ("chain", "tree", "star", "layered") and n < 2:
        n = 2
    if shape in ("chain", "tree") and rng.random() < 0.04:
        n = rng.choice([100, 150, 200])  # long chains: accumulated float error, deep (but admissible) recursion
    order = list(range(n))
    rng.shuffle(order)  # topological order: edges go from earlier to later in `order`
    pos = {v: k for k, v in enumerate(order)}
    edges = []
    if shape == "chain":
        edges = [(order[k], order[k + 1]) for k in range(n - 1)]
    elif shape == "tree":
        for k in range(1, n):
            j = rng.randrange(0, k)
            edges.append((order[j], order[k]))
    elif shape == "star":
        hub = rng.randrange(n)
        for k in range(n):
            if k != hub:
                edges.append((order[min(k, hub)], order[max(k, hub)]) if rng.random() < 0.5 else ((order[hub], order[k]) if hub < k else (order[k], order[hub])))
    elif shape in ("sparse", "dense", "dup"):
        m = n if shape == "sparse" else rng.randrange(n, 3 * n + 1)
        if n >= 2:
            for _ in range(m):
                a, b = rng.sample(range(n), 2)
                a, b = min(a, b), max(a, b)
                edges.append((order[a], order[b]))
        if shape == "dup" and edges:
            extra = []
            for _ in range(max(1, len(edges) // 3)):
                extra.append(rng.choice(edges))  # duplicates
            # transitively redundant: a->b, b->c  ==> add a->c
            succ = {}
            for a, b in edges:
                succ.setdefault(a, []).append(b)
            for a, b in edges[: len(edges) // 2]:
                for c in succ.get(b, [])[:1]:
                    extra.append((a, c))
            edges += extra
    elif shape == "layered":
        L = rng.randrange(2, min(6, n) + 1)
        layers = [[] for _ in range(L)]
        for k, v in enumerate(order):
            layers[min(L - 1, k * L // n)].append(v)
        for li in range(L - 1):
            for v in layers[li + 1]:
                for u in rng.sample(layers[li], min(len(layers[li]), rng.choice([1, 1, 2, 3]))):
                    edges.append((u, v))
    gapmode = rng.choice(["zero", "one", "three", "uniform", "mixed"])

    def gap():
        if gapmode == "zero":
            return 0
        if gapmode == "one":
            return 1
        if gapmode == "three":
            return 3
        if gapmode == "uniform":
            return rng.uniform(0, 20)
        return rng.choice([0, 0, 1, 3, rng.uniform(0, 20)])

    cons = [(a, b, gap()) for a, b in edges]
    if rng.random() < 0.5:
        rng.shuffle(cons)  # the order in which the caller lists the constraints is arbitrary
    if rng.random() < 0.08:
        d = [rng.choice([0, 7.5, -3])] * n  # every variable wants the same place
    elif rng.random() < 0.5:
        d = [rng.choice([0, 5, 10]) for _ in range(n)]
    elif rng.random() < 0.5:
        d = [rng.uniform(-100, 100) for _ in range(n)]
    else:
        d = [float(rng.randrange(-30, 30)) for _ in range(n)]
    if wc == "unit":
        w = [1] * n
    elif wc == "mild":
        w = [rng.choice([0.5, 1, 2, 3]) for _ in range(n)]
    else:
        w = [rng.choice([1e-2, 0.1, 1, 1, 10, 1e3, 1e6, 1e10]) for _ in range(n)]
    s = [1] * n if sc == "one" else [rng.choice([0.5, 1, 2, 4]) for _ in range(n)]
    cyclic = False
    if rng.random() < 0.12 and len(cons) >= 2:
        cyclic = True
        cons = [((b, a, g) if rng.random() < 0.15 else (a, b, g)) for a, b, g in cons]
    return Q.Instance(d, w, s, cons), "%s/%s/%s" % (shape, wc, sc), cyclic


def gen_cyclic(rng):
    """Instances whose constraint graph has directed cycles: rings, rings sharing a node, DAG + back edges,
    with positive (contradictory) and zero (satisfiable) cycle gaps."""
    n = rng.choice([2, 3, 3, 4, 5, 6, 8, 12, 20, 35])
    kind = rng.choice(["ring", "two-rings", "dag+back", "dense"])
    cons = []
    g = lambda: rng.choice([0, 0, 1, 3, rng.uniform(0, 10)])
    if kind == "ring" or n < 4:
        cons = [(i, (i + 1) % n, g()) for i in range(n)]
    elif kind == "two-rings":
        k = n // 2
        cons = [(i, (i + 1) % k, g()) for i in range(k)] + [(k + i, k + (i + 1) % (n - k), g()) for i in range(n - k)]
        if rng.random() < 0.7:
            cons.append((0, k, g()))  # else: two separate components
    elif kind == "dag+back":
        for b in range(1, n):
            cons.append((rng.randrange(0, b), b, g()))
        for _ in range(rng.choice([1, 1, 2, 3])):
            a, b = sorted(rng.sample(range(n), 2))
            cons.append((b, a, g()))
    else:
        for _ in range(2 * n):
            a, b = rng.sample(range(n), 2)
            cons.append((a, b, g()))
    if rng.random() < 0.2:
        # one-edge cycles: a constraint from a variable to itself (contradictory when its gap is positive)
        for _ in range(rng.choice([1, 1, 2])):
            i = rng.randrange(n)
            cons.insert(rng.randrange(len(cons) + 1), (i, i, rng.choice([0, 1, 3, rng.uniform(0, 10)])))
    d = [rng.choice([0, 5, 10, rng.uniform(-50, 50)]) for _ in range(n)]
    w = [rng.choice([1, 1, 1, 0.5, 2, 1e3]) for _ in range(n)]
    sc = [1] * n if rng.random() < 0.7 else [rng.choice([0.5, 1, 2]) for _ in range(n)]
    return Q.Instance(d, w, sc, cons)


def build(V, inst):
    vs = [V.Variable(inst.d[i], inst.w[i], inst.s[i]) for i in range(inst.n)]
    cs = [V.Constraint(vs[l], vs[r], g) for l, r, g in inst.cons]
    return vs, cs


# ---------------------------------------------------------------------------
# judging a recorded solve()

KEY_DEGENERATE = "degenerate-pivot-early-stop"


def continuation_proposals(mon, inst, rounds=50):
    """Candidate points from the library's own iteration continued beyond solve()'s stop rule."""
    import labella.vpsc as V

    props = []
    mon.suspended += 1
    try:
        vs, cs = build(V, inst)
        s = V.Solver(vs, cs)
        s.solve()
        last = None
        same = 0
        for k in range(rounds):
            s.satisfy()
            x = [v.position() for v in vs]
            act = [i for i, c in enumerate(cs) if c.active]
            # a degenerate pivot changes the active set but not the positions: only stop once both are stable
            same = same + 1 if (x, act) == last else 0
            if same >= 2:
                break
            last = (x, act)
            props.append(("continuation+%d" % (k + 1), x, act))
    except BaseException:
        pass
    finally:
        mon.suspended -= 1
    return props


def judge_record(ctx, mon, rec, stratum, cyclic, direct):
    inst = rec["inst"]
    case = {"instance": inst.to_json(), "cyclic": cyclic}
    n, m = inst.n, len(inst.cons)
    if rec["equality"]:
        ctx.judge(stratum, OUT_OF_SCOPE, None)
        return
    if rec["exc"] == "BudgetExceeded":
        ctx.judge(stratum, VIOLATED, case, finding={"reason": "step budget exceeded", "ops": rec["ops"], "budget": rec["budget"]}, key="budget")
        return
    if rec["exc"] is not None:
        ctx.judge(stratum, VIOLATED, case, finding={"reason": "solve() raised " + rec["exc"]}, key="raised " + rec["exc"])
        return
    x, cost = rec["x"], rec["cost"]
    ctx.extra["max_ops_ratio"] = max(ctx.extra.get("max_ops_ratio", 0), rec["total_ops"] / float(n + m))
    if any((not isinstance(v, (int, float))) or math.isnan(v) or math.isinf(v) for v in x):
        ctx.judge(stratum, VIOLATED, case, finding={"reason": "non-finite position", "x": [repr(v) for v in x[:10]]}, key="nonfinite")
        return
    order = Q.topo_order(inst)
    if order is None:
        # second sentence of the property: every constraint not flagged unsatisfiable holds
        sl = Q.slacks_exact(inst, x)
        unsat = set(rec["unsat"])
        bad = [(c, float(v)) for c, v in enumerate(sl) if c not in unsat and v < -1e-6]
        if bad:
            ctx.judge("cyclic", VIOLATED, case, finding={"reason": "unflagged constraint violated", "constraint": list(inst.cons[bad[0][0]]), "slack": bad[0][1], "unsat": sorted(unsat)}, key="cyclic-unflagged-violation")
        else:
            ctx.judge("cyclic", HELD, case if len(ctx.samples) < 2 else None, nontrivial=bool(unsat), dig=Q_digest(inst))
        return
    if rec["unsat"]:
        ctx.judge(stratum, VIOLATED, case, finding={"reason": "constraint of an acyclic instance flagged unsatisfiable", "unsat": rec["unsat"]}, key="acyclic-flagged-unsat")
        return
    res = Q.certify(inst, x, cost, active=rec["active"], hildreth_sweeps=0) if n <= 80 else Q.certify(inst, x, cost, active=rec["active"])
    if res["verdict"] != "held" and res.get("reason") not in ("infeasible", "reported cost differs from the cost of the reported positions") and n <= 80:
        res = Q.certify(inst, x, cost, active=rec["active"], proposals=continuation_proposals(mon, inst))
    if res["verdict"] == "held":
        merges = rec["ops"].get("merge", 0)
        tight = res.get("min_slack", 1) <= 1e-6
        nontriv = merges >= 1 and tight
        ctx.judge(stratum, HELD, {"instance": inst.to_json(), "x": x, "cost": cost, "dual_bound": res.get("lb")} if nontriv and len(ctx.samples) < 2 and n <= 6 else None,
                  nontrivial=nontriv, dig=Q_digest(inst))
    elif res["verdict"] == "violated":
        key = res["reason"]
        if res["reason"] == "sub-optimal" and str(res.get("ub_source", "")).startswith("continuation") and is_degenerate_pivot(rec, inst, direct):
            key = KEY_DEGENERATE
        res.pop("better_point", None) if n > 12 else None
        ctx.judge(stratum, VIOLATED, case, finding={"x": x if n <= 12 else None, "cost": cost, "ops": rec["ops"], "diag": rec["diag"], **res}, key=key)
    else:
        ctx.judge(stratum, INCONCLUSIVE, case, reason=res.get("reason"))


def is_degenerate_pivot(rec, inst, direct=True):
    """Mechanism of known finding K2 (structural, no seeds/values): solve() stopped because its last satisfy() round
    left the cost within its 1e-4 stop tolerance ALTHOUGH that very round still split a block - either it exchanged one
    active constraint for another at equal cost (a degenerate pivot, needs a constraint graph that is not a forest) or the
    split itself gained almost nothing while the blocks it freed would be re-arranged only by the next round (seen on a
    tree with weights from 1e-2 to 1e10 and mixed scales, thorough tier).  For the layer problems of real layouts (chains
    with two walls) the forest case is NOT admitted: there every sub-optimal result stays a violation."""
    m = len(inst.cons)
    forest = len(Q._spanning_forest(inst, range(m))) == m  # every constraint is a forest edge
    rounds = rec.get("rounds") or []
    if (forest and not direct) or len(rounds) < 2:
        return False
    (s_last, c_last), (_, c_prev) = rounds[-1], rounds[-2]
    return s_last >= 1 and abs(c_last - c_prev) <= 1e-4


def Q_digest(inst):
    import hashlib

    return hashlib.sha1(repr((inst.d, inst.w, inst.s, inst.cons)).encode()).hexdigest()[:16]


def solve_direct(ctx, mon, V, inst, stratum, cyclic):
    vs, cs = build(V, inst)
    dg = Q_digest(inst)
    again = dg[0] in "01"  # one instance in eight: solve() is called a second time on the same Solver
    if dg[0] in "23" and inst.cons:
        # one in eight: the Variable objects served another Solver with another (acyclic) constraint set before
        order = {v: k for k, v in enumerate(sorted(range(inst.n), key=lambda i: (inst.d[i], i)))}
        aux = [V.Constraint(vs[min(l, r, key=order.get)], vs[max(l, r, key=order.get)], g + 1.5) for l, r, g in inst.cons[::2] if l != r]
        try:
            V.Solver(vs, aux).solve()
        except BaseException as e:
            if not isinstance(e, (Exception, BudgetExceeded)):
                raise
        mon.drain()
        cs = [V.Constraint(vs[l], vs[r], g) for l, r, g in inst.cons]
        ctx.path("variables-served-another-solver")
    try:
        sv = V.Solver(vs, cs)
        sv.solve()
        if again:
            sv.solve()
            ctx.path("solve-called-twice")
        elif dg[0] in "45" and hasattr(sv, "setDesiredPositions"):
            # incremental use: new desired positions for the same variables, solve() again on the same Solver
            import random as _r

            r2 = _r.Random(dg)
            span = max(1.0, max(inst.d) - min(inst.d))
            sv.setDesiredPositions([r2.choice([x, x + r2.uniform(-span, span), r2.uniform(min(inst.d) - 5, max(inst.d) + 5)]) for x in inst.d])
            sv.solve()
            again = True
            ctx.path("resolved-with-new-desired-positions")
    except BudgetExceeded:
        pass
    except RecursionError:
        pass
    except Exception:
        pass
    recs = mon.drain()
    if len(recs) != (2 if again else 1) and not (again and len(recs) == 1):
        ctx.judge(stratum, INCONCLUSIVE, None, reason="monitor saw %d solve() calls for one direct solve" % len(recs))
        return
    for rec in recs:
        judge_record(ctx, mon, rec, stratum, cyclic, True)


def worker(ctx, shard):
    from vmon.mon_vpsc import SolverMonitor

    mon = SolverMonitor().install()
    import labella.vpsc as V

    kind = shard["kind"]
    if kind == "direct":
        rng = ctx.rng("direct%d" % shard["sub"])
        for _ in range(shard["n"]):
            if ctx.should_stop(60):
                break
            inst, stratum, cyclic = gen_instance(rng)
            solve_direct(ctx, mon, V, inst, stratum, cyclic)
    elif kind == "insitu":
        from labella.force import Force
        from workloads import layout as WL

        rng = ctx.rng("insitu%d" % shard["sub"])
        for _ in range(shard["n"]):
            if ctx.should_stop(60):
                break
            labels, opts, tag = WL.gen_case(rng, max_n=120)
            f = Force(dict(opts))
            f.nodes(WL.make_nodes(labels))
            try:
                f.compute()
            except BaseException as e:
                if not isinstance(e, Exception) and not isinstance(e, BudgetExceeded):
                    raise
            for rec in mon.drain():
                judge_record(ctx, mon, rec, "insitu-layer", False, False)
    elif kind == "cyclic":
        rng = ctx.rng("cyclic%d" % shard["sub"])
        for _ in range(shard["n"]):
            if ctx.should_stop(60):
                break
            inst = gen_cyclic(rng)
            solve_direct(ctx, mon, V, inst, "cyclic", Q.topo_order(inst) is None)
    elif kind == "fixtures":
        for inst in fixtures():
            solve_direct(ctx, mon, V, inst, "fixtures", Q.topo_order(inst) is None)
    elif kind == "pinned":
        pinned_shard(ctx, mon, V)
    elif kind == "repo-tests":
        from props import workload_r

        workload_r.judge(ctx, shard["part"])
    for k, v in mon.events.items():
        ctx.event(k, v)
    for k, v in mon.paths.items():
        ctx.path(k, v)
    mon.uninstall()


def fixtures():
    """The instances of tests/test_vpsc.py (shapes only: expected values are not used)."""
    F = []
    F.append(Q.Instance([2, 9, 9, 9, 2], [1] * 5, [1] * 5, [(0, 4, 3), (0, 1, 3), (1, 2, 3), (2, 4, 3), (3, 4, 3)]))
    F.append(Q.Instance([0, 0], [1, 1], [2, 1], [(0, 1, 2)]))
    F.append(Q.Instance([1, 1, 1], [1] * 3, [3, 2, 4], [(0, 1, 2), (1, 2, 2)]))
    F.append(Q.Instance([4, 6, 9, 2, 5], [1] * 5, [1] * 5, [(0, 2, 3), (0, 3, 3), (1, 4, 3), (2, 4, 3), (2, 3, 3), (3, 4, 3)]))
    F.append(Q.Instance([5, 6, 7, 4, 3], [1] * 5, [1] * 5, [(0, 4, 3), (1, 2, 3), (2, 3, 3), (2, 4, 3), (3, 4, 3)]))
    F.append(Q.Instance([0, 9, 1, 9, 5, 1, 2, 1, 6, 3], [1] * 10, [1] * 10,
                        [(0, 3, 3), (1, 8, 3), (1, 6, 3), (2, 6, 3), (3, 5, 3), (3, 6, 3), (3, 7, 3), (4, 8, 3), (4, 7, 3), (5, 8, 3), (5, 7, 3), (5, 8, 3), (6, 9, 3), (7, 8, 3), (7, 9, 3), (8, 9, 3)]))
    F.append(Q.Instance([7, 1, 6, 0, 2], [1] * 5, [1] * 5, [(0, 3, 3), (0, 1, 3), (1, 4, 3), (2, 4, 3), (2, 3, 3), (3, 4, 3)]))
    F.append(Q.Instance([0, 0, 0], [1, 1, 1], [1, 1, 1], [(0, 1, 1), (1, 2, 1), (2, 0, 1)]))  # a contradictory cycle
    return F


def pinned_shard(ctx, mon, V):
    import os

    from vmon.core import VERIF, Ctx, jloads, load_known_findings

    known, _ = load_known_findings(PROPERTY_ID)
    status = {}
    for key, info in known.items():
        if not info.get("witness"):
            continue
        w = jloads(open(os.path.join(VERIF, info["witness"])).read())
        inst = Q.Instance.from_json(w["case"]["instance"])
        sub = Ctx(PROPERTY_ID, ctx.tier, ctx.seed)
        solve_direct(sub, mon, V, inst, "pinned", False)
        if sub.n_violations:
            k2 = sub.violations[0].get("key")
            status[key] = "fails" if k2 == key else "fails-differently"
            if k2 != key:
                ctx.judge("pinned", VIOLATED, w["case"], finding=sub.violations[0].get("finding"), key=k2)
        else:
            status[key] = "passes"
    ctx.extra["pinned"] = status


def replay(ctx, witness):
    from vmon.mon_vpsc import SolverMonitor

    mon = SolverMonitor().install()
    import labella.vpsc as V

    c = witness.get("case") or {}
    inst = Q.Instance.from_json(c["instance"])
    solve_direct(ctx, mon, V, inst, "replay", bool(c.get("cyclic")))
    mon.uninstall()
