"""C15 - the time scale is affine in elapsed time and invertible.

Deciding monitors: H6 TimeMonitor (every __call__/invert judged online against
exact timedelta arithmetic on the domain/range the object reports) + relational
checks by the driver (end points, proportionality to the *given* domain,
monotonicity, equal durations, round trip, agreement with a LinearScale on
oracle-computed epoch milliseconds).
"""

import math
from datetime import datetime, timedelta
from fractions import Fraction

from vmon.core import HELD, INCONCLUSIVE, VIOLATED
from workloads import timedom

PROPERTY_ID = "C15"
LEVEL = "exploration"
RULE = (
    "seeded pairs of distinct naive datetimes (ms resolution, 1900-2200, either order, spans 1 ms..250 y incl. calendar edges), ranges "
    "either order, query instants at the ends, inside and up to 3 spans outside. Each case judged for: ends -> range ends, proportionality "
    "(exact timedelta ratio), strict monotonicity for instants >= 1 ms apart, equal durations -> equal lengths, invert(scale(t)) within 1 ms "
    "inside the domain, agreement with a LinearScale fed epoch milliseconds computed by the oracle. Non-trivial = case with a query strictly "
    "inside and one outside the domain; distinct = distinct (domain, range)."
)
ASSUMPTIONS = ["relative tolerance 1e-9 of |r1-r0|*(1+extrapolation) + 1e-9*(|r0|+|r1|) on positions; equal-duration lengths compared to 1e-7 relative (difference of two rounded values)"]
EPOCH = datetime(1970, 1, 1)
US = timedelta(microseconds=1)


def plan(tier, seed):
    k = 8 if tier == "quick" else 64
    return [{"kind": "affine", "sub": i, "n": 2500 if tier == "quick" else 20000} for i in range(k)] + [{"kind": "repo-tests", "part": "time"}, {"kind": "insitu-exports", "n": 150 if tier == "quick" else 2000}]


def floors(tier):
    return {"evaluations": 5000, "strata": ["forward", "reversed-domain", "reversed-range", "history"],
            "events": {"TimeScale.eval.__call__": 50000, "TimeScale.eval.invert": 10000}, "distinct_nontrivial": 5000}


def rand_range(rng):
    if rng.random() < 0.06:
        a, b = rng.sample([-3, -2, -1, 0, 1, 2, 3], 2)  # set-ups in one process that differ in exactly one small integer
        return [a, b]
    if rng.random() < 0.08:
        # small or large in absolute terms, wide relative to its own magnitude: as non-degenerate as [0, 360]
        sc = 10.0 ** rng.choice([-12, -10, -9, -6, -3, 6, 9])
        return [x * sc for x in rng.choice([[0, 5], [2.5, -2.5], [1, 3], [7, 0], [-4, -1]])]
    r = rng.random()
    if r < 0.5:
        return list(rng.choice([[0, 360], [0, 1000], [0, 760], [20, 980]]))
    if r < 0.75:
        return list(rng.choice([[360, 0], [1000, -50], [500.5, 0.25]]))
    a = rng.uniform(-1e4, 1e4)
    b = rng.uniform(-1e4, 1e4)
    if abs(a - b) < 1e-3:
        b = a + 10
    return [a, b]


def run_case(ctx, S, a, b, r, fracs, subclass=False):
    case = {"domain": [a, b], "range": r, "fracs": fracs, "subclass": subclass}
    W = timedom.as_sub if subclass else (lambda t: t)
    if subclass:
        ctx.path("datetime-subclass-instants")
    stratum = "reversed-domain" if a > b else ("reversed-range" if r[0] > r[1] else "forward")
    probs = []
    span_us = (b - a) // US
    try:
        if hash((a, b)) % 4 == 1:
            s = S.TimeScale().range(list(r)).domain([W(a), W(b)])  # the range first, then the domain
            ctx.path("range-set-before-domain")
        else:
            s = S.TimeScale().domain([W(a), W(b)]).range(list(r))
        lin = S.LinearScale().domain([float(Fraction((a - EPOCH) // US, 1000)), float(Fraction((b - EPOCH) // US, 1000))]).range(list(r))
        ts = []
        for f in fracs:
            t = a + timedelta(microseconds=int(span_us * f) // 1000 * 1000)
            if timedom.LO - timedelta(days=366 * 600) < t < timedom.HI + timedelta(days=366 * 600):
                ts.append(t)
        ts = [a, b] + ts
        if hash((a, b, "us")) % 3 == 0:
            # query instants finer than a millisecond (the domain stays at ms resolution): positions are proportional to the
            # elapsed time of the instant as given, not of its whole-millisecond part (seeded/C07o)
            for f in fracs:
                t = a + timedelta(microseconds=int(span_us * f) // 1000 * 1000 + 1 + (hash((a, f)) % 998))
                if min(a, b) - abs(b - a) < t < max(a, b) + abs(b - a):
                    ts.append(t)
            ctx.path("sub-millisecond-query-instants")
        ys = [s(W(t)) for t in ts]
        dr = abs(r[1] - r[0])
        mag = abs(r[0]) + abs(r[1])
        if abs(ys[0] - r[0]) > 1e-9 * (dr + mag) or abs(ys[1] - r[1]) > 1e-9 * (dr + mag):
            probs.append("domain ends do not map to range ends: %r vs %r" % (ys[:2], r))
        for t, y in zip(ts, ys):
            frac = Fraction((t - a) // US, span_us)
            exp = Fraction(r[0]) + frac * (Fraction(r[1]) - Fraction(r[0]))
            tol = 1e-9 * dr * (1 + abs(float(frac))) + 1e-9 * mag
            if t.microsecond % 1000:
                # not a whole number of epoch milliseconds: half an ulp of ~1e12 ms, magnified by range span / domain span
                tol += 4 * math.ulp(max(abs((q - EPOCH) / timedelta(milliseconds=1)) for q in (t, a, b))) * dr / (abs(span_us) / 1000.0)
            if abs(y - float(exp)) > tol:
                probs.append("not proportional to elapsed time at %s: got %r expected %r" % (t.isoformat(), y, float(exp)))
                break
            yl = lin(float(Fraction((t - EPOCH) // US, 1000)))
            if abs(y - yl) > tol:
                probs.append("disagrees with linear scale on epoch ms at %s: %r vs %r" % (t.isoformat(), y, yl))
                break
        pts = sorted(zip(ts, ys))
        sign = 1 if (b > a) == (r[1] > r[0]) else -1
        for (t1, y1), (t2, y2) in zip(pts, pts[1:]):
            gap = (t2 - t1) / timedelta(milliseconds=1)
            if gap >= 1 and gap / (abs(span_us) / 1000) > 1e-7 and not (sign * (y2 - y1) > 0):
                probs.append("not strictly increasing along the range between %s and %s: %r, %r" % (t1.isoformat(), t2.isoformat(), y1, y2))
                break
        # equal durations map to equal lengths
        d = timedelta(microseconds=abs(span_us) // 7 // 1000 * 1000)
        if d >= timedelta(milliseconds=1):
            t1, t2 = min(a, b) + d, min(a, b) + 4 * d
            l1 = s(W(t1 + d)) - s(W(t1))
            l2 = s(W(t2 + d)) - s(W(t2))
            if abs(l1 - l2) > 1e-7 * dr + 1e-9 * mag:
                probs.append("equal durations map to different lengths: %r vs %r" % (l1, l2))
        # round trip inside the domain.  scale(t) carries a float error of a few ulp of the range magnitude,
        # which invert() magnifies by (domain span)/(range span): with a range whose span is tiny relative
        # to its magnitude no float implementation can return the instant to 1 ms, so such ranges are not
        # judged for the round trip (found on the thorough tier: range [-6212.67, -6210.10] over 187 years).
        lo, hi = min(a, b), max(a, b)
        amplification = 8 * 2.0 ** -53 * mag / dr * (abs(span_us) / 1000.0)
        judge_roundtrip = amplification <= 0.25
        if not judge_roundtrip:
            ctx.path("roundtrip-not-judged-ill-conditioned-range")
        for t, y in zip(ts, ys):
            if judge_roundtrip and lo <= t <= hi:
                back = s.invert(y)
                if not isinstance(back, datetime) or abs(back - t) > timedelta(milliseconds=1):
                    probs.append("invert(scale(t)) off by more than 1 ms: t=%s back=%r" % (t.isoformat(), back))
                    break
    except Exception as e:
        probs.append("raised %s: %s" % (type(e).__name__, e))
    return case, stratum, probs


def history_case(ctx, tm, S, rng):
    """Re-configuration histories on one TimeScale (and copies): the same instants are mapped again after every
    domain / range / nice / copy operation; the online monitor judges every evaluation against the domain and
    range the object reports at that moment."""
    a, b, _m, tag = timedom.gen_time_domain(rng, min_span_ms=1000)
    span_us = (b - a) // US
    probes = [a, b] + [a + timedelta(microseconds=int(span_us * f) // 1000 * 1000) for f in (0.5, rng.random(), rng.random())]
    ops = []
    for _ in range(rng.randrange(2, 8)):
        r = rng.random()
        if r < 0.4:
            ops.append(["range", rand_range(rng)])
        elif r < 0.6:
            a2, b2, _m2, _t2 = timedom.gen_time_domain(rng, min_span_ms=1000)
            ops.append(["domain", [a2, b2]])
        elif r < 0.68:
            # the range list the scale hands out is edited in place and passed to range() again
            ops.append(["range-edit-in-place", rng.choice([0, 1]), rng.choice([-250.0, 17.5, 1234.0, 3e-9])])
        elif r < 0.695:
            ops.append(["ticks", rng.choice([None, 2, 5, 10, 20])])  # asking for ticks changes nothing the caller set
        elif r < 0.71:
            ops.append(["interpolate-round-trip"])  # s.interpolate(s.interpolate()): sets what is already set
        elif r < 0.75:
            ops.append(["nice", rng.choice([None, 5, 20])])
        elif r < 0.9:
            ops.append(["copy"])
        else:
            ops.append(["invert-probe"])
    case = {"type": "history", "domain": [a, b], "range": rand_range(rng), "ops": ops, "probes": probes}
    run_history(ctx, tm, S, case)


def run_history(ctx, tm, S, case):
    v0 = tm.n_violations
    probs = []
    try:
        if hash(repr(case["range"])) % 3 == 0:
            objs = [S.TimeScale().range(list(case["range"])).domain(case["domain"])]  # range first, then the domain
        else:
            objs = [S.TimeScale().domain(case["domain"]).range(list(case["range"]))]
        want = [{"domain": list(case["domain"]), "range": list(case["range"])}]  # what the caller last set, per object
        for op in [["start"]] + case["ops"]:
            o = objs[-1] if op[0] != "copy" else objs[0]
            wi = want[-1] if op[0] != "copy" else want[0]
            if op[0] == "range":
                o.range(list(op[1]))
                wi["range"] = list(op[1])
            elif op[0] == "range-edit-in-place":
                lst = o.range()
                if isinstance(lst, list) and lst[1 - op[1]] != op[2]:
                    lst[op[1]] = op[2]
                    o.range(lst)
                    wi["range"] = list(lst)
                    ctx.path("range-list-edited-in-place-and-set-again")
            elif op[0] == "ticks":
                o.ticks(op[1]) if op[1] is not None else o.ticks()
                ctx.path("ticks-in-history")
            elif op[0] == "interpolate-round-trip":
                o.interpolate(o.interpolate())
                ctx.path("interpolate-round-trip")
            elif op[0] == "domain":
                o.domain(op[1])
                wi["domain"] = list(op[1])
            elif op[0] == "nice":
                o.nice(op[1]) if op[1] is not None else o.nice()
                wi["domain"] = None  # nice() moves the domain (C14); the range stays
            elif op[0] == "copy":
                objs.append(o.copy())
                want.append({"domain": wi["domain"] and list(wi["domain"]), "range": list(wi["range"])})
            # one setter leaves what the others set: every object still reports the range (and, unless niced, the domain) it was given
            for x, w in zip(objs, want):
                if x.clamp():
                    probs.append("after %s the scale reports clamping switched on; nobody asked for it" % op[0])
                if list(x.range()) != w["range"]:
                    probs.append("after %s the scale reports range %r, the caller set %r" % (op[0], list(x.range()), w["range"]))
                if w["domain"] is not None and list(x.domain()) != w["domain"]:
                    probs.append("after %s the scale reports domain %r, the caller set %r" % (op[0], [t.isoformat() for t in x.domain()], [t.isoformat() for t in w["domain"]]))
            if probs:
                break
            for x in objs:
                d = x.domain()
                if d[0] == d[1]:
                    continue
                for t in case["probes"]:
                    x(t)
                rr = x.range()
                x.invert(rr[0] + 0.5 * (rr[1] - rr[0]))
    except Exception as e:
        probs.append("raised %s: %s" % (type(e).__name__, e))
    if tm.n_violations > v0:
        vs = tm.violations[-(tm.n_violations - v0):][:3]
        ctx.judge("history", VIOLATED, case, finding=vs + probs, key="history:" + vs[0]["kind"] if vs else "history")
    elif probs:
        ctx.judge("history", VIOLATED, case, finding=probs, key="history:setter-interference" if probs[0].startswith("after ") else "history:raised")
    else:
        ctx.judge("history", HELD, case if len(ctx.samples) < 1 else None, nontrivial=True, dig=repr(case)[:3000])


def worker(ctx, shard):
    from vmon.mon_scale import LinearMonitor, TimeMonitor

    tm = TimeMonitor(keep=100).install()
    lm = LinearMonitor().install()
    import labella.scale as S

    if shard["kind"] == "repo-tests":
        from props import workload_r

        tm.uninstall(); lm.uninstall()
        workload_r.judge(ctx, shard["part"])
        return
    if shard["kind"] == "insitu-exports":
        from props import export_common as EC

        lm.uninstall()
        EC.insitu_exports(ctx, tm, lambda: tm.events["eval.__call__"] + tm.events["eval.invert"], shard["n"], scale_kind="time")
        ctx.event("insitu.TimeScale.eval.__call__", tm.events["eval.__call__"])
        tm.uninstall()
        return
    rng = ctx.rng("affine%d" % shard["sub"])
    for _ in range(shard["n"]):
        a, b, _m, tag = timedom.gen_time_domain(rng)
        r = rand_range(rng)
        fracs = [0.5, rng.random(), rng.random(), rng.uniform(-3, 0), rng.uniform(1, 4), 0.999999, 1e-6]
        v0 = tm.n_violations
        lm.reset()
        case, stratum, probs = run_case(ctx, S, a, b, r, fracs, subclass=rng.random() < 0.08)
        if tm.n_violations > v0:
            probs.extend("monitor:%s %r" % (v["kind"], v["detail"]) for v in tm.violations[-2:])
        if probs:
            ctx.judge(stratum, VIOLATED, case, finding=probs[:4], key=probs[0].split(":")[0].split(" at ")[0][:40])
        else:
            ctx.judge(stratum, HELD, case, nontrivial=True, dig="%s|%s|%r" % (a, b, r))
    for _ in range(max(1, shard["n"] // 3)):
        lm.reset()
        history_case(ctx, tm, S, rng)
    ctx.event("TimeScale.eval.__call__", tm.events["eval.__call__"])
    ctx.event("TimeScale.eval.invert", tm.events["eval.invert"])
    ctx.event("LinearScale.eval.insitu", lm.events["eval.__call__"])
    ctx.extra["insitu_monitor_violations"] = {"linear(C12)": lm.n_violations}
    tm.uninstall(); lm.uninstall()


def replay(ctx, witness):
    from vmon.mon_scale import TimeMonitor

    tm = TimeMonitor().install()
    import labella.scale as S

    c = witness.get("case") or {}
    if c.get("type") == "history":
        run_history(ctx, tm, S, c)
        tm.uninstall()
        return
    case, stratum, probs = run_case(ctx, S, c["domain"][0], c["domain"][1], c["range"], c["fracs"], subclass=bool(c.get("subclass")))
    if tm.n_violations:
        probs.append("monitor: %r" % tm.violations[:2])
    ctx.judge("replay", VIOLATED if probs else HELD, case, finding=probs)
    tm.uninstall()
