"""C01 - same-layer items never overlap and keep the order of their targets.

Deciding monitors: H1 (Force.compute: engine options, no layer moves after its own
solve) + H2 (removeOverlap: chain order, widths, stub flags, monitor-computed
targets, final positions); oracle: oracles/layout.py (exact rational arithmetic).
"""

from props import layout_common as LC

PROPERTY_ID = "C01"
LEVEL = "exploration"
RULE = "Wlayout: seeded label multisets (n in 1..200; integer, half-integer, uniform, clustered, tied positions; near-touching chains with spacing gap-eps; exact-fit / barely-unfit / gross-misfit packings; widths incl. 33.5 and 50.003; a label wider than the layer) x engine options (minPos default/None/-50/30/0.5, maxPos absent/200..1500/exact, nodeSpacing 0/1/3/7.5, density, stubWidth 0/1/4, algorithm overlap/simple/none), plus one conflict cluster of n=1..200 labels. One evaluation = one layer solved inside Force.compute(), recorded by the H2 hook and judged for target order, adjacent separation (w1+w2)/2+spacing-1 (2-unit spacing between two stubs) and the separation every other pair inherits from the chain. Non-trivial = layer in which at least one item ended away from round(target); distinct = distinct (targets, widths, stub flags, bounds, spacing)."
ASSUMPTIONS = [
    "targets are computed by the monitor at layer entry (data position, or the current position of the item's own stub in the nearer layer), not read from the code's targetPos",
    "separation slack 1 (integer rounding of both positions) + 1e-9; optimum/bounds tolerance 0.5 (rounding) + 1e-3 (1e10-weight soft walls)",
]


def plan(tier, seed):
    return LC.plan(tier, seed, quick_huge=(52, 100))  # 5200 labels in one layer (about 25 s on one core)


def floors(tier):
    return {"evaluations": 1500, "strata": ["no-bounds", "both-bounds-fit", "both-bounds-unfit", "single-layer", "multi-layer", "stub-stub-neighbours", "near-touching", "non-integer-widths", "layer>=100", "deeper-layer"],
            "events": {"Force.compute": 1000, "layers_observed": 1500}, "distinct_nontrivial": 300}


def worker(ctx, shard):
    LC.worker(ctx, shard, PROPERTY_ID)


def replay(ctx, witness):
    LC.replay(ctx, witness, PROPERTY_ID)
