"""C18 - results do not depend on the process's local time zone.

Deciding monitor: an offline comparator over recorded call logs.  The same
deterministic battery of calendar, time-scale and export computations is run by
the real code in fresh processes under five TZ values; each process logs one
canonical line per call made at the API boundary; the logs must be identical to
the UTC log line by line.
"""

import os
import subprocess
import sys

from vmon.core import HELD, INCONCLUSIVE, PY, VERIF, VIOLATED, jdumps, worker_env

PROPERTY_ID = "C18"
LEVEL = "exploration"
ZONES = ["UTC", "America/New_York", "Asia/Kolkata", "Australia/Lord_Howe", "Pacific/Chatham"]
RULE = (
    "seeded battery (props/c18_battery.py): floor/ceil/round/offset/range of all 7 calendar units on instants drawn around the "
    "DST transition days of US Eastern, Lord Howe and Chatham (hours 0-4, quarter-hour and odd minutes, ms), on half-hour instants "
    "and on random ms instants 1900-2200; TimeScale domain/call/invert/ticks/nice over spans 5 ms..80 years; SVG and TikZ exports "
    "of datetime data; plus, for every window of wall-clock time that is skipped or repeated in one of the zones according to the system's "
    "zone data 1900-2200 (props/c18_zones.py; the 5 windows that cover a local midnight always, the ~1450 others sampled): calendar ops at "
    "its edges and exports of date-typed and mixed date/datetime items around it. Each call is executed under TZ in %s and its canonical result line compared with the UTC run. "
    "One evaluation = one call compared across the five zones. Non-trivial = a call whose datetime argument has a non-zero minute "
    "or lies within ~a day of a DST switch of one of the zones; distinct = distinct log line." % ZONES
)
ASSUMPTIONS = [
    "the five zoneinfo files exist (verified by a sentinel: datetime.fromtimestamp(0) must differ from the UTC run in every non-UTC process, else inconclusive)",
    "datetime.time inputs (which the library combines with today's date) are excluded from the battery",
]


def plan(tier, seed):
    if tier == "quick":
        return [{"kind": "battery", "chunk": i, "n": 40, "exports": 8} for i in range(8)]
    return [{"kind": "battery", "chunk": i, "n": 150, "exports": 20} for i in range(64)]


def floors(tier):
    return {"evaluations": 2500, "strata": ["calendar", "timescale", "export"], "events": {"zones_compared": 5, "zone_windows_from_zoneinfo": 8}, "distinct_nontrivial": 500}


def _stratum(op):
    if op.startswith("TimeScale"):
        return "timescale"
    if op.startswith("Timeline"):
        return "export"
    return "calendar"


def run_zone(spec, zone):
    env = worker_env({"TZ": zone, "SOURCE_DATE_EPOCH": "86400000"})  # a pinned build date, as reproducible-build set-ups export it
    p = subprocess.run([PY, "-m", "props.c18_battery", jdumps(spec)], cwd=VERIF, env=env, capture_output=True, text=True, timeout=1800)
    return p.returncode, p.stdout.splitlines(), p.stderr[-800:]


def worker(ctx, shard):
    spec = {"seed": ctx.seed, "chunk": shard["chunk"], "n": shard["n"], "exports": shard["exports"]}
    if "hot" in shard:
        spec["hot"] = shard["hot"]
    else:
        try:
            from props import c18_zones

            mid, rest = c18_zones.pick(ZONES, ctx.rng("hot%d" % shard["chunk"]), shard.get("hot_n", 6))
            # the rare windows that cover a local midnight are spread over the chunks, two per chunk
            k = shard["chunk"]
            spec["hot"] = [mid[(2 * k) % len(mid)], mid[(2 * k + 1) % len(mid)]] + rest if mid else rest
            ctx.event("zone_windows_from_zoneinfo", len(spec["hot"]))
        except Exception as e:  # no zoneinfo module/data: the sentinel decides whether the zones are in effect at all
            ctx.extra["zone_windows_error"] = "%s: %s" % (type(e).__name__, e)
            spec["hot"] = []
    logs = {}
    for z in ZONES:
        rc, lines, err = run_zone(spec, z)
        if rc != 0 or not lines or not lines[-1].startswith("END|"):
            ctx.judge("battery", INCONCLUSIVE, {"spec": spec, "zone": z}, reason="battery process failed in zone %s: %s" % (z, err[-300:]))
            return
        logs[z] = lines
    sent = {z: logs[z][0] for z in ZONES}
    for z in ZONES[1:]:
        if sent[z].split("|")[3] == sent["UTC"].split("|")[3]:
            ctx.judge("battery", INCONCLUSIVE, {"spec": spec, "zone": z}, reason="zone %s not in effect (sentinel equals UTC's)" % z)
            return
    ctx.extra["sentinels"] = {z: sent[z] for z in ZONES}
    ctx.event("zones_compared", len(ZONES))
    ref = logs["UTC"][1:-1]
    others = {z: logs[z][1:-1] for z in ZONES[1:]}
    for z, l in others.items():
        if len(l) != len(ref):
            ctx.judge("battery", VIOLATED, {"spec": spec, "zone": z}, finding={"reason": "log length differs", "utc": len(ref), z: len(l)}, key="tz-dependent")
            return
    for i, line in enumerate(ref):
        flag, op, args, res = line.split("|", 3)
        diff = {z: l[i].split("|", 3)[3] for z, l in others.items() if l[i] != line}
        st = _stratum(op)
        ctx.event("calls_compared")
        if res.startswith("EXC "):
            ctx.event("calls_raising_in_UTC")
            if st == "export" or res == "EXC TypeError":
                # an export (or a call) that raises identically everywhere proves nothing about zones
                ctx.judge(st, INCONCLUSIVE, None, reason="battery call raised %s in every zone: %s" % (res, op))
                continue
        if diff:
            ctx.judge(st, VIOLATED, {"spec": spec, "line": i, "op": op, "args": args},
                      finding={"op": op, "args": args, "UTC": res[:300], "others": {z: v[:300] for z, v in diff.items()}}, key="tz-dependent:" + op)
        else:
            ctx.judge(st, HELD, None, nontrivial=(flag == "N"), dig=line[:120] if flag == "N" else None)
            if flag == "N" and len(ctx.samples) < 3 and st != "export":
                ctx.samples.append({"op": op, "args": args, "result_in_all_5_zones": res[:200]})


def replay(ctx, witness):
    case = witness.get("case") or {}
    if "spec" not in case:
        ctx.judge("replay", INCONCLUSIVE, case, reason="no spec")
        return
    spec = dict(case["spec"])
    ctx.seed = spec["seed"]
    worker(ctx, {"chunk": spec["chunk"], "n": spec["n"], "exports": spec["exports"], "hot": spec.get("hot", [])})
