"""Shared driver for C07-C11: builds one timeline from a spec, exports it under the
H10 (export), H1/H2/H4 (layout), H8 (uni2tex) and H9 (names/colours) monitors and
parses the document."""

import traceback

from oracles import picture as PIC
from workloads import tl as TL


class Monitors(object):
    def __init__(self, layout=True, tex=True, utils=True, solver=False):
        from vmon.mon_export import ExportMonitor

        self.export = ExportMonitor().install()
        self.layout = self.tex = self.utils = self.solver = None
        if layout:
            from vmon.mon_layout import LayoutMonitor

            self.layout = LayoutMonitor().install()
        if tex:
            from vmon.mon_tex import TexMonitor

            self.tex = TexMonitor().install()
        if utils:
            from vmon.mon_utils import UtilsMonitor

            self.utils = UtilsMonitor().install()
        if solver:
            from vmon.mon_vpsc import SolverMonitor

            self.solver = SolverMonitor().install()

    def events(self, ctx):
        for k, v in self.export.events.items():
            ctx.event(k, v)
        if self.layout:
            for k, v in self.layout.events.items():
                ctx.event(k, v)
        if self.tex:
            ctx.event("uni2tex", self.tex.calls)
        if self.utils:
            for k, v in self.utils.calls.items():
                ctx.event(k, v)
        ctx.extra["insitu_monitor_violations"] = {
            "uni2tex(C19)": self.tex.n_violations if self.tex else 0,
            "names/colours(C20)": self.utils.n_violations if self.utils else 0,
        }

    def uninstall(self):
        for m in (self.export, self.layout, self.tex, self.utils, self.solver):
            if m is not None:
                m.uninstall()


def export_one(spec, kind, mons, parse=True):
    """kind: 'svg' | 'tikz'.  Returns a result dict; never raises for library errors."""
    from labella.timeline import TimelineSVG, TimelineTex
    from vmon.budget import ensure_tick_budget

    ensure_tick_budget()  # a changed tree must not be able to make one export build billions of tick instants
    cls = TimelineSVG if kind == "svg" else TimelineTex
    res = {"kind": kind, "exc": None, "doc": None, "picture": None, "parse_error": None, "domain": None, "labels": None, "timeline": None}
    try:
        data, options, scale = TL.build(spec)
        if mons.layout:
            mons.layout.drain()
        tl = cls(data, options=options) if options is not None else cls(data)
        res["timeline"] = tl
        doc = tl.export()
        res["doc"] = doc
        sc = tl.options["scale"]
        res["domain"] = list(sc.domain())
        res["range"] = list(sc.range())
        if mons.layout:
            recs = mons.layout.drain()
            if recs:
                res["compute_record"] = recs[-1]
                res["labels"] = recs[-1]["labels"]
                res["engine_options"] = recs[-1]["options"]
                res["n_layers"] = len([L for L in recs[-1]["layers"] if L["items"]])
                res["moved"] = any(it["pos"] != it["t"] for L in recs[-1]["layers"] if L["items"] for it in L["items"])
    except RecursionError as e:
        res["exc"] = ("RecursionError", str(e)[:100], _repo_frames(e))
    except Exception as e:
        res["exc"] = (type(e).__name__, str(e)[:300], _repo_frames(e))
    if res["doc"] is not None and parse:
        try:
            res["picture"] = PIC.parse_svg(res["doc"]) if kind == "svg" else PIC.parse_tikz(res["doc"])
        except PIC.Unparseable as e:
            res["parse_error"] = str(e)
    return res


def export_again(res, kind, mons, parse=True):
    """Exports res["timeline"] once more; returns a result dict shaped like export_one's (same spec, new document/records)."""
    out = dict(res, exc=None, doc=None, picture=None, parse_error=None)
    tl = res["timeline"]
    try:
        if mons.layout:
            mons.layout.drain()
        out["doc"] = tl.export()
        sc = tl.options["scale"]
        out["domain"] = list(sc.domain())
        out["range"] = list(sc.range())
        if mons.layout:
            recs = mons.layout.drain()
            if recs:
                out["compute_record"] = recs[-1]
                out["labels"] = recs[-1]["labels"]
                out["engine_options"] = recs[-1]["options"]
                out["n_layers"] = len([L for L in recs[-1]["layers"] if L["items"]])
                out["moved"] = any(it["pos"] != it["t"] for L in recs[-1]["layers"] if L["items"] for it in L["items"])
    except RecursionError as e:
        out["exc"] = ("RecursionError", str(e)[:100], _repo_frames(e))
    except Exception as e:
        out["exc"] = (type(e).__name__, str(e)[:300], _repo_frames(e))
    if out["doc"] is not None and parse:
        try:
            out["picture"] = PIC.parse_svg(out["doc"]) if kind == "svg" else PIC.parse_tikz(out["doc"])
        except PIC.Unparseable as e:
            out["parse_error"] = str(e)
    return out


def _repo_frames(e):
    out = []
    for fs in traceback.extract_tb(e.__traceback__):
        if "/labella/" in fs.filename:
            out.append("%s:%s" % (fs.filename.split("/labella/")[-1], fs.name))
    # collapse long recursive runs
    dedup = []
    for f in out:
        if not dedup or dedup[-1] != f:
            dedup.append(f)
    return dedup[-12:]


def data_text_fn(spec):
    return lambda d: TL.datum_text(spec, d)


def data_time_fn(spec):
    return lambda d: TL.datum_time(spec, d)


def uses_time_of_day_inputs(spec):
    import datetime as dt

    return any(isinstance(TL.datum_time(spec, d), dt.time) for d in spec["data"])


def insitu_exports(ctx, mon, count_events, n, stratum="insitu-exports", scale_kind=None):
    """Drives n seeded timeline exports (both back-ends) with the low-level monitor `mon` installed, so that
    the monitor sees the calls the library really makes (realistic argument distributions).  A firing monitor is
    a violation of the monitor's own property, with the spec as witness.  count_events() -> judged events so far."""
    from vmon.core import HELD, INCONCLUSIVE, VIOLATED

    class _NoMons(object):
        layout = None

    rng = ctx.rng("insitu-exports")
    for _ in range(n):
        spec = TL.gen_spec(rng, scale_kind=scale_kind)
        v0, e0 = mon.n_violations, count_events()
        for kind in ("svg", "tikz"):
            export_one(spec, kind, _NoMons(), parse=False)
        if hasattr(mon, "reset"):
            mon.reset()
        if mon.n_violations > v0:
            ctx.judge(stratum, VIOLATED, {"spec": spec}, finding=mon.violations[-min(3, mon.n_violations - v0):], key="insitu:" + str(mon.violations[-1].get("kind") or mon.violations[-1].get("op") or "monitor"))
        elif count_events() > e0:
            ctx.judge(stratum, HELD, None, nontrivial=True, dig=repr(spec)[:3000])
        else:
            ctx.judge(stratum, "out_of_scope", None)
