"""C14 - nice() only widens a domain, by less than two tick steps, to round end points.

Deciding oracles: oracles/ticks.judge_linear_nice / judge_time_nice over the
domains and ticks returned by the real scales at the API boundary; H5/H6/H7
monitors stay installed (in-situ evidence + end-point invariant of C12 after nice).
"""

import math
from datetime import datetime

from oracles import ticks as T
from vmon.core import HELD, INCONCLUSIVE, OUT_OF_SCOPE, VIOLATED
from workloads import lin, timedom

PROPERTY_ID = "C14"
LEVEL = "exploration"
RULE = (
    "linear: the C13 domain generator (thresholds, exact multiples, narrow spans, either order) x m in 1..100/default; "
    "time: ms-resolution domains 1900-2200, spans 10 ms..200 y, either orientation, default and explicit counts 2..50, anchored "
    "around month ends, leap days, year ends, Sundays. Each case: nice(m) on the real scale, then orientation / no inward move / "
    "outward move < 2 tick steps / round ends judged from domain() and ticks() before and after. Non-trivial = nice moved at least "
    "one end; distinct = distinct (domain, m)."
)
ASSUMPTIONS = [
    "linear step = measured step of ticks(m) of the resulting domain; time step = largest gap of ticks(m) of the original domain; when fewer than 2 ticks exist only orientation/no-inward-move are judged (counted as partial)",
    "time alignment class from the smallest tick gap (>=1 s second, >=60 s minute, >=1 h hour, >=1 d midnight, >=28 d first of month, >=365 d 1 January)",
]


def plan(tier, seed):
    k = 8 if tier == "quick" else 64
    return [{"kind": "pinned"}] + [{"kind": "nice", "sub": i, "n_lin": 2500 if tier == "quick" else 20000, "n_time": 1500 if tier == "quick" else 12000} for i in range(k)]


def floors(tier):
    return {"evaluations": 8000, "strata": ["linear", "time", "time+calendar-edge"],
            "events": {"LinearScale.nice": 6000, "TimeScale.nice": 3000, "calendar.calls": 10000}, "distinct_nontrivial": 5000,
            "paths": ["tickMethod.row12", "tickMethod.row15", "tickMethod.row17", "tickMethod.multi-year", "tickMethod.milliseconds"],
            # K3 is met about once in 1e5 linear cases; a hundred times that is something else
            "max_known_finding_frac": {KEY_FLOAT_STEP: 0.001}}


_REUSE = {"lin": None, "time": None}  # a quarter of the cases re-use the scale object of the previous case
KEY_FLOAT_STEP = "linear-nice-round-end-pushed-out-by-float-division"


def nice_key(p):
    for word, key in (("orientation", "orientation"), ("moved inward", "moved-inward"), ("moved out", "moved-out-2-steps"), ("not a multiple", "not-round"), ("is not on a", "not-aligned")):
        if word in p:
            return key
    return "other"


def float_extra_step(a, b, a2, b2, ticks, probs):
    """Mechanism classifier of the known finding: the only complaint is an outward move of
    (float-)exactly two steps of an end that already was a multiple of the step - the quotient
    end/step came out one ulp beyond the integer, so each of the two nice passes added a whole step."""
    from fractions import Fraction

    if not probs or not all("moved out by" in p for p in probs):
        return False
    h = T.measured_step(ticks)
    if h is None:
        return False
    lo, hi, lo2, hi2 = min(a, b), max(a, b), min(a2, b2), max(a2, b2)
    for e, e2 in ((lo, lo2), (hi, hi2)):
        move = abs(Fraction(e2) - Fraction(e))
        if move >= 2 * h:
            q = Fraction(e) / h
            # "already a multiple" and "exactly two steps" up to the representation error of the end itself (4 ulp of the
            # end, expressed in steps): ends of magnitude 1e4..1e6 with steps of 1e-3 carry 1e-9..1e-8 steps of it
            import math

            slack = max(Fraction(1, 10**9), 4 * Fraction(math.ulp(max(abs(e), abs(e2)))) / h)
            already_round = abs(q - round(q)) < slack
            if not (already_round and move <= 2 * h * (1 + slack)):
                return False
    return True


def lin_case(ctx, S, a, b, m, tag):
    case = {"scale": "linear", "domain": [a, b], "m": m}
    try:
        prev = _REUSE["lin"]
        mode = hash((a, b)) % 5 if prev is not None else 4
        if mode == 0:
            s = prev.domain([a, b])
        elif mode == 1:
            # two live scales related by copy() hold different domains; the other one is asked for the same count first
            s = prev.copy().domain([a, b])
            list(prev.ticks(m)) if m is not None else list(prev.ticks())
            ctx.path("linear.copy-sibling-asked-first")
        elif mode == 2:
            # the caller's own list object is given to two scales; the other one is made nice (coarsely) first
            shared = [a, b]
            other = S.LinearScale().domain(shared)
            s = S.LinearScale().domain(shared)
            other.nice(2)
            ctx.path("linear.same-list-given-to-two-scales")
        elif mode == 3:
            # the scale object held a single-point domain before (and was asked to be nice there)
            s = S.LinearScale().domain([a, a])
            try:
                s.nice(m) if m is not None else s.nice()
            except Exception:
                pass
            s.domain([a, b])
            ctx.path("linear.same-object-after-a-degenerate-domain")
        else:
            s = S.LinearScale().domain([a, b])
        _REUSE["lin"] = s
        if hash((b, a)) % 4 == 0:
            s.range([0, [100, 960, 2000, 10000, -3000][hash((a, b)) % 5]])  # the output range has no say in nice() or ticks
            ctx.path("linear.with-an-output-range")
        if m is not None and hash((a, b, m)) % 12 == 0:
            m = float(m)  # a count given as a float with an integral value is the same count
            ctx.path("linear.float-count")
        s.nice(m) if m is not None else s.nice()
        a2, b2 = s.domain()
        ticks = list(s.ticks(m)) if m is not None else list(s.ticks())
    except Exception as e:
        ctx.judge("linear", VIOLATED, case, finding="raised %s: %s" % (type(e).__name__, e), key="linear:raised")
        return
    probs, full = T.judge_linear_nice(a, b, a2, b2, ticks)
    meff = 10 if m is None else m
    if not probs and not (math.floor(0.57 * meff) <= len(ticks) <= 1.43 * meff + 1):
        # the step the statement speaks of is that of the ticks for the REQUESTED count: a tick list of another size (C13's
        # bound) means the niced ends were rounded to the step of some other count
        probs = ["ticks of the niced domain (%d) do not belong to the requested count %r: niced with the step of another count" % (len(ticks), m)]
    if probs:
        key = "linear:" + nice_key(probs[0])
        if float_extra_step(a, b, a2, b2, ticks, probs):
            key = KEY_FLOAT_STEP
        ctx.judge("linear", VIOLATED, case, finding={"problems": probs, "niced": [a2, b2], "ticks": ticks[:6]}, key=key)
        return
    if not full:
        ctx.path("linear.partial-judgement")
    moved = (a2, b2) != (a, b)
    ctx.judge("linear", HELD, {"scale": "linear", "domain": [a, b], "m": m, "niced": [a2, b2]}, nontrivial=moved and full, dig="L%r|%r|%r" % (a, b, m))
    if moved and hash((a, b)) % 3 == 0:
        # nice() again on the same object: the niced domain is a domain like any other (no inward move, < 2 steps, round ends)
        try:
            s.nice(m) if m is not None else s.nice()
            a3, b3 = s.domain()
            ticks3 = list(s.ticks(m)) if m is not None else list(s.ticks())
        except Exception as e:
            ctx.judge("linear", VIOLATED, dict(case, second_nice=True), finding="raised %s: %s" % (type(e).__name__, e), key="linear:raised")
            return
        probs, full = T.judge_linear_nice(a2, b2, a3, b3, ticks3)
        ctx.path("linear.nice-twice" + ("-moved-again" if (a3, b3) != (a2, b2) else ""))
        if probs:
            key = "linear:" + nice_key(probs[0])
            if float_extra_step(a2, b2, a3, b3, ticks3, probs):
                key = KEY_FLOAT_STEP
            ctx.judge("linear", VIOLATED, {"scale": "linear", "domain": [a, b], "m": m, "second_nice": True}, finding={"problems": probs, "first": [a2, b2], "second": [a3, b3]}, key=key)


def time_case(ctx, S, a, b, m, tag):
    case = {"scale": "time", "domain": [a, b], "m": m}
    stratum = "time+calendar-edge" if ("edge" in tag or "month-end" in tag) else "time"
    try:
        prev = _REUSE["time"]
        mode = hash((a, b)) % 5 if prev is not None else 4
        if mode == 0:
            s = prev.domain([a, b])
        elif mode == 1:
            s = prev.copy().domain([a, b])
        elif mode == 2:
            s = S.TimeScale().domain(iter([a, b]))  # any iterable of two instants, here a one-shot iterator
            ctx.path("time.domain-from-an-iterator")
        elif mode == 3:
            # the scale object held a single-instant domain before (and was asked to be nice there)
            s = S.TimeScale().domain([a, a])
            try:
                s.nice(m) if m is not None else s.nice()
            except Exception:
                pass
            s.domain([a, b])
            ctx.path("time.same-object-after-a-single-instant-domain")
        else:
            s = S.TimeScale().domain([a, b])
        _REUSE["time"] = s
        if hash((b, a)) % 4 == 0:
            s.range([0, [100, 960, 2400, 10000, -3000][hash((a, b)) % 5]])
            ctx.path("time.with-an-output-range")
        if mode == 1:
            # two live scales related by copy() hold different domains; the other one is asked for the same count first, and
            # the ticks of the original domain come from an unrelated scale
            u = S.TimeScale().domain([a, b])
            before = u.ticks(m) if m is not None else u.ticks()
            prev.ticks(m) if m is not None else prev.ticks()
            ctx.path("time.copy-sibling-asked-first")
        else:
            before = s.ticks(m) if m is not None else s.ticks()
        s.nice(m) if m is not None else s.nice()
        a2, b2 = s.domain()
    except Exception as e:
        ctx.judge(stratum, VIOLATED, case, finding="raised %s: %s" % (type(e).__name__, e), key="time:raised " + type(e).__name__)
        return
    if not (isinstance(a2, datetime) and isinstance(b2, datetime)):
        ctx.judge(stratum, VIOLATED, case, finding="domain() after nice is not a pair of datetimes: %r" % ([a2, b2],), key="time:type")
        return
    probs, full = T.judge_time_nice(a, b, a2, b2, before)
    if probs:
        ctx.judge(stratum, VIOLATED, case, finding={"problems": probs, "niced": [a2, b2], "ticks_before": before[:5], "n_ticks": len(before)},
                  key="time:" + nice_key(probs[0]))
        return
    if not full:
        ctx.path("time.partial-judgement")
    moved = (a2, b2) != (a, b)
    ctx.judge(stratum, HELD, {"scale": "time", "domain": [a, b], "m": m, "niced": [a2, b2]}, nontrivial=moved and full, dig="T%s|%s|%r" % (a, b, m))
    if moved and hash((a, b)) % 3 == 0 and a2 != b2:
        # nice() again on the same object: judged as a case of its own against the ticks of the niced domain
        try:
            u = S.TimeScale().domain([a2, b2])
            before2 = u.ticks(m) if m is not None else u.ticks()
            s.nice(m) if m is not None else s.nice()
            a3, b3 = s.domain()
        except Exception as e:
            ctx.judge(stratum, VIOLATED, dict(case, second_nice=True), finding="raised %s: %s" % (type(e).__name__, e), key="time:raised " + type(e).__name__)
            return
        probs, full = T.judge_time_nice(a2, b2, a3, b3, before2)
        ctx.path("time.nice-twice" + ("-moved-again" if (a3, b3) != (a2, b2) else ""))
        if probs:
            ctx.judge(stratum, VIOLATED, dict(case, second_nice=True), finding={"problems": probs, "first": [a2, b2], "second": [a3, b3]}, key="time:" + nice_key(probs[0]))


def worker(ctx, shard):
    from vmon.hooks import Patches
    from vmon.mon_scale import LinearMonitor, TimeMonitor
    from vmon.mon_time import CalendarMonitor

    lm = LinearMonitor().install()
    tm = TimeMonitor().install()
    cm = CalendarMonitor().install()
    import labella.scale as S

    if shard["kind"] == "pinned":
        pinned_shard(ctx, S)
        lm.uninstall(); tm.uninstall(); cm.uninstall()
        return
    rng = ctx.rng("nice%d" % shard["sub"])
    for _ in range(shard["n_lin"]):
        a, b, m, tag = lin.gen_domain(rng)
        lm.reset()
        lin_case(ctx, S, a, b, m, tag)
    nlin = lm.events["mutator.nice"]
    for _ in range(shard["n_time"]):
        a, b, m, tag = timedom.gen_time_domain(rng, min_span_ms=10, max_span_ms=200 * 365 * 86400000)
        lm.reset()
        time_case(ctx, S, a, b, m, tag)
    ctx.event("LinearScale.nice", nlin)
    ctx.event("TimeScale.nice", tm.events["nice"])
    ctx.event("calendar.calls", sum(cm.calls.values()))
    ctx.event("linear.endpoint_invariant", lm.events["endpoint_invariant"])
    for k, v in tm.paths.items():
        ctx.path(k, v)
    # in-situ monitors: a firing is reported under the property that owns the monitor, here it is only noted
    ctx.extra["insitu_monitor_violations"] = {"linear(C12)": lm.n_violations, "time(C15)": tm.n_violations, "calendar(C17)": cm.n_violations}
    if lm.n_violations or cm.n_violations:
        ctx.notes.append("in-situ monitor fired: linear=%s calendar=%s" % (lm.violations[:1], cm.violations[:1]))
    lm.uninstall(); tm.uninstall(); cm.uninstall()


def pinned_shard(ctx, S):
    """Replays the pinned witnesses of the known findings; reports fails/passes, never a violation."""
    import os

    from vmon.core import VERIF, Ctx, jloads, load_known_findings

    known, _ = load_known_findings(PROPERTY_ID)
    status = {}
    for key, info in known.items():
        if not info.get("witness"):
            continue
        w = jloads(open(os.path.join(VERIF, info["witness"])).read())
        sub = Ctx(PROPERTY_ID, ctx.tier, ctx.seed)
        c = w["case"]
        lin_case(sub, S, c["domain"][0], c["domain"][1], c.get("m"), "pinned")
        status[key] = "fails" if (sub.n_violations and sub.violations[0].get("key") == key) else ("fails-differently" if sub.n_violations else "passes")
        if status[key] == "fails-differently":
            ctx.judge("pinned", VIOLATED, c, finding=sub.violations[0].get("finding"), key=sub.violations[0].get("key"))
    ctx.extra["pinned"] = status


def replay(ctx, witness):
    import labella.scale as S

    case = witness.get("case") or {}
    a, b = case["domain"]
    if case.get("scale") == "linear":
        lin_case(ctx, S, a, b, case.get("m"), "replay")
    else:
        time_case(ctx, S, a, b, case.get("m"), "replay")
