"""C10 helper, run as a script in a FRESH process:

    python -m props.c10_history '<json: {"specs": [...], "backends": [...], "ops": [["new",k]|["export",k], ...]}>'

Plays the history on the real code under the H10 monitor and prints one JSON object:
{"exports": [{"op": i, "k": k, "doc": str} | {"op": i, "k": k, "exc": str}], "interference": [...], "events": {...}}
A reference run is the history [["new",0],["export",0]] over a single spec.
"""

import json
import sys

from vmon.core import assert_repo_under_test, jdumps, jloads


def main():
    assert_repo_under_test()
    h = jloads(sys.argv[1])
    from vmon.mon_export import ExportMonitor
    from workloads import tl as TL

    mon = ExportMonitor().install()
    from vmon.budget import ensure_tick_budget

    ensure_tick_budget()
    from labella.timeline import TimelineSVG, TimelineTex

    tls = {}
    datas = {}
    optobjs = {}
    share_opts = {int(k): v for k, v in (h.get("share_options") or {}).items()}
    share = {int(k): v for k, v in (h.get("share_data") or {}).items()}
    out = {"exports": [], "interference": [], "events": {}}
    for i, op in enumerate(h["ops"]):
        k = op[1]
        try:
            if op[0] == "failing":
                # a construction / export that fails on the caller's bad input (a time that is no time): whatever it leaves
                # behind must not reach the other timelines
                try:
                    bad = [{"time": "not a time", "width": 10, "text": "x"}, {"time": None, "width": 12}]
                    (TimelineSVG if k % 2 else TimelineTex)(bad, options={"direction": "left"}).export()
                    out["events"]["failing_did_not_fail"] = out["events"].get("failing_did_not_fail", 0) + 1
                except Exception:
                    out["events"]["failing_raised"] = out["events"].get("failing_raised", 0) + 1
                continue
            if op[0] == "export-to-file-failing":
                # TikZ export(filename) with the default build_pdf=True: there is no LaTeX here, so the call fails after the
                # document was generated (SVG: an unwritable path).  The timeline must export as before afterwards.
                import os
                import tempfile

                with tempfile.TemporaryDirectory(prefix="vmon-c10-") as tmp:
                    try:
                        if h["backends"][k] == "tikz":
                            tls[k].export(os.path.join(tmp, "t.tex"))
                        else:
                            tls[k].export(os.path.join(tmp, "no-such-dir", "t.svg"))
                        out["events"]["file_export_did_not_fail"] = out["events"].get("file_export_did_not_fail", 0) + 1
                    except Exception:
                        out["events"]["file_export_failed"] = out["events"].get("file_export_failed", 0) + 1
                continue
            if op[0] == "new":
                data, options, _ = TL.build(h["specs"][k])
                if k in share and share[k] in datas:
                    data = datas[share[k]]  # the very dict objects another timeline was given (equal values by construction)
                datas[k] = data
                if k in share_opts and share_opts[k] in optobjs:
                    options = optobjs[share_opts[k]]  # the very options dict object another timeline was constructed with
                optobjs[k] = options
                cls = TimelineSVG if h["backends"][k] == "svg" else TimelineTex
                tls[k] = cls(data, options=options) if options is not None else cls(data)
            else:
                doc = tls[k].export()
                if isinstance(doc, bytes):
                    doc = doc.decode("utf-8")
                out["exports"].append({"op": i, "k": k, "doc": doc})
        except Exception as e:
            out["exports"].append({"op": i, "k": k, "exc": "%s: %s" % (type(e).__name__, str(e)[:200])})
    out["interference"] = mon.violations
    out["n_interference"] = mon.n_violations
    ev = dict(mon.events)
    ev.update(out["events"])
    out["events"] = ev
    sys.stdout.write(jdumps(out))


if __name__ == "__main__":
    main()
