"""C06 - a layout is a pure function of the labels and options.

Deciding monitor: H1 records every Force.compute() of a history (engine, accumulated
options, label multiset, result map); the reference model is the history-free
run: a fresh engine with the accumulated options on fresh nodes in sorted order.
"""

import copy

from vmon.core import HELD, INCONCLUSIVE, VIOLATED
from workloads import layout as WL

PROPERTY_ID = "C06"
LEVEL = "exploration"
RULE = (
    "seeded histories of 2-8 operations on one Force engine: nodes(A), compute, re-compute, set_options(delta), compute, nodes(B), compute, "
    "with label objects that were laid out before by another engine/configuration (stale position, layer, stubs, overlap counts) and with "
    "permuted input lists and with widths/positions of the laid-out label objects edited in place; label sets from Wlayout with the proviso enforced (labels sharing a position share a width). After every compute() "
    "the map (idealPos,width) -> multiset of (layerIndex,currentPos) must equal that of a fresh engine with the accumulated options on fresh, "
    "sorted nodes. Non-trivial = history with a recompute / stale nodes / permutation / option change whose final layout has >= 2 layers or "
    "moved a label; distinct = distinct history."
)
ASSUMPTIONS = ["the reference is the same code run history-free (the property is history-independence, not correctness of the layout)"]


def plan(tier, seed):
    k = 12 if tier == "quick" else 64
    return [{"kind": "hist", "sub": i, "n": 120 if tier == "quick" else 1500} for i in range(k)] + \
           [{"kind": "hashseed", "sub": i, "n": 150 if tier == "quick" else 1500} for i in range(2 if tier == "quick" else 8)]


def floors(tier):
    return {"evaluations": 400, "strata": ["recompute", "stale-nodes", "permutation", "option-change", "second-label-set", "subset-of-earlier-set", "edited-in-place", "other-engine-alive", "set-options-without-changes", "hash-seed"],
            "events": {"Force.compute": 1500}, "distinct_nontrivial": 200}


def proviso(labels):
    """Labels that share a data position share a width."""
    w = {}
    out = []
    for l in labels:
        w.setdefault(l["pos"], l["w"])
        out.append({"pos": l["pos"], "w": w[l["pos"]]})
    return out


def result_map(nodes):
    m = {}
    for n in nodes:
        m.setdefault((n.idealPos, n.width), []).append((n.layerIndex, n.currentPos))
    return {k: sorted(v) for k, v in m.items()}


def reference(labels, options):
    from labella.force import Force

    f = Force(dict(options))
    nodes = WL.make_nodes(sorted(labels, key=lambda l: (l["pos"], l["w"])))
    f.nodes(nodes)
    f.compute()
    return result_map(nodes)


OPTION_DELTAS = [
    {"nodeSpacing": 0}, {"nodeSpacing": 7.5}, {"maxPos": 300}, {"maxPos": 1200}, {"maxPos": None}, {"minPos": 30}, {"minPos": None}, {"minPos": 0},
    {"algorithm": "simple"}, {"algorithm": "overlap"}, {"algorithm": "none"}, {"density": 0.3}, {"density": 1}, {"stubWidth": 0}, {"stubWidth": 4},
]


def _budget_boundary_case(rng):
    """Fractional widths whose required width - summed in position order, as a float - is exactly the density budget: the
    layering must not depend on the order in which the caller lists the labels (float sums do)."""
    n = rng.choice([3, 4, 5, 7])
    ws = [rng.choice([33.3, 21.7, 14.9, 10.1, 7.3, 0.1, 41.6]) for _ in range(n)]
    pos = sorted(rng.sample([30.0, 80.0, 125.0, 160.0, 201.5, 260.0, 333.0, 410.0], n))
    sp = rng.choice([3, 0.1, 1.7])
    total = 0
    for w in ws:  # position order
        total += w + sp
    total -= sp
    labels = [{"pos": p, "w": w} for p, w in zip(pos, ws)]

    def fsum(order):
        t = 0
        for l in order:
            t += l["w"] + sp
        return t - sp

    for _ in range(30):  # an input order whose float sum differs from the position-order sum (if the widths allow one)
        rng.shuffle(labels)
        if fsum(labels) != total:
            break
    import math

    # the budget is the position-order sum itself, or one unit in the last place below it, or the input-order sum
    budget = rng.choice([total, math.nextafter(total, 0), fsum(labels), min(total, fsum(labels))])
    opts = {"nodeSpacing": sp, "minPos": 0, "maxPos": budget, "density": 1, "algorithm": rng.choice(["overlap", "simple"]), "stubWidth": 1}
    return labels, opts


def gen_history(rng):
    if rng.random() < 0.06:
        labelsA, opts = _budget_boundary_case(rng)
        ops = [["nodes", "A", "fresh"], ["compute"], ["permute-in-place"], ["compute"], ["nodes", "A", "permuted"], ["compute"], ["permute-in-place"], ["compute"]]
        return {"labelsA": labelsA, "labelsB": labelsA[:2], "options": opts, "ops": ops, "stale_options": {"algorithm": "none"}, "perm_seed": rng.randrange(10**6), "budget_boundary": True}
    labelsA, opts, tag = WL.gen_case(rng, max_n=60)
    labelsA = proviso(labelsA)
    labelsB = proviso(WL.gen_case(rng, max_n=30)[0])
    r = rng.random()
    if r < 0.15:
        # B has A's length and A's positions, other widths (anything cached per index or per position shows)
        labelsB = proviso([{"pos": l["pos"], "w": max(1.0, l["w"] * rng.choice([0.5, 1.0, 2.0, 3.0]))} for l in labelsA])
    elif r < 0.25:
        # B is A moved by a constant
        sh = rng.choice([-40.0, 13.0, 250.0])
        labelsB = [{"pos": l["pos"] + sh, "w": l["w"]} for l in labelsA]
    ops = []
    if rng.random() < 0.2:
        # options changed before any labels were given
        ops.append(["set_options", rng.choice(OPTION_DELTAS)])
    ops += [["nodes", "A", rng.choice(["fresh", "fresh", "stale", "permuted", "stale+permuted"])], ["compute"]]
    for _ in range(rng.randrange(1, 6)):
        r = rng.random()
        if r < 0.35:
            ops.append(["compute"])
        elif r < 0.6:
            ops.append(["set_options", rng.choice(OPTION_DELTAS + [None, "no-argument", {}])])
            ops.append(["compute"])
        elif r < 0.7:
            ops.append(["nodes", rng.choice(["A", "B"]), rng.choice(["fresh", "stale", "permuted", "same-objects"])])
            ops.append(["compute"])
        elif r < 0.8:
            # a sub-multiset of A, as the very objects that were laid out as part of A before
            ops.append(["nodes", "A-sub", "same-objects"])
            ops.append(["compute"])
        elif r < 0.83:
            # a compute() that fails on a bad option value (unknown algorithm), the option is then put back
            ops.append(["failing-compute"])
            ops.append(["compute"])
        elif r < 0.86:
            # another engine with other options is constructed, configured and used in between (it stays alive)
            ops.append(["other-engine", rng.choice(OPTION_DELTAS + [{"maxPos": 5000, "density": 0.2}, {"minPos": None, "maxPos": None}]), rng.random() < 0.5])
            ops.append(["compute"])
        elif r < 0.93:
            # widths / positions of the laid-out label objects edited in place, same objects handed over again (or not)
            ops.append(["edit-in-place", rng.randrange(10**6), rng.random() < 0.7])
            ops.append(["compute"])
        else:
            ops.append(["permute-in-place"])
            ops.append(["compute"])
    stale_opts = dict(WL.gen_case(rng, max_n=5)[1])
    return {"labelsA": labelsA, "labelsB": labelsB, "options": opts, "ops": ops, "stale_options": stale_opts, "perm_seed": rng.randrange(10**6)}


def edit_labels(labels, er):
    """An in-place edit of the current labels (values only): widths of whole position groups change (so the proviso keeps
    holding) and one position group may move to a position nobody else has."""
    out = [dict(l) for l in labels]
    groups = {}
    for i, l in enumerate(out):
        groups.setdefault(l["pos"], []).append(i)
    keys = sorted(groups)
    for p in keys:
        if er.random() < 0.35:
            w = max(1.0, out[groups[p][0]]["w"] * er.choice([0.5, 1.5, 2.0, 4.0])) if er.random() < 0.85 else 0
            for i in groups[p]:
                out[i]["w"] = w
    if er.random() < 0.5:
        p = er.choice(keys)
        q = p + er.choice([-35.0, 12.5, 60.0])
        if q not in groups:
            for i in groups[p]:
                out[i]["pos"] = q
    return out


def run_history(ctx, mon, h):
    import random

    from labella.force import Force

    prng = random.Random(h["perm_seed"])
    sets = {"A": h["labelsA"], "B": h["labelsB"]}
    others = []  # other engines, kept alive
    objs = {}  # set name -> node objects last used for it (the engine may reorder a list it was given)
    lab_of = {}  # id(node) -> the label values the caller gave that object

    def labels_of(nodes):
        return [lab_of[id(nd)] for nd in nodes]

    acc = dict(h["options"])
    f = Force(dict(h["options"]))
    cur = None
    feats = set()
    probs = []
    ncomputes = 0
    final_nontrivial = False
    try:
        for opi, op in enumerate(h["ops"]):
            if op[0] == "nodes":
                name, mode = op[1], op[2]
                if name == "A-sub":
                    if "A" not in objs:
                        continue
                    # every other object of A, as laid out before as part of A
                    nodes = objs["A"][::2]
                    feats.add("stale-nodes")
                    feats.add("subset-of-earlier-set")
                elif mode == "same-objects" and name in objs:
                    nodes = objs[name]
                    feats.add("stale-nodes")
                else:
                    labels = [dict(l) for l in sets[name]]
                    nodes = WL.make_nodes(labels)
                    for nd, l in zip(nodes, labels):
                        lab_of[id(nd)] = l
                    if "stale" in mode:
                        # lay these very objects out with another engine / configuration first
                        g = Force(dict(h["stale_options"]))
                        g.nodes(nodes)
                        g.compute()
                        mon.drain()
                        feats.add("stale-nodes")
                    if "permuted" in mode:
                        prng.shuffle(nodes)
                        feats.add("permutation")
                ws = {}
                if any(ws.setdefault(l["pos"], l["w"]) != l["w"] for l in labels_of(nodes)):
                    continue  # edits of a subset broke the proviso for this set: not a history the rule covers
                f.nodes(nodes)
                objs[name] = nodes
                if cur is not None and name != cur:
                    feats.add("second-label-set")
                cur = name
            elif op[0] == "set_options":
                if op[1] == "no-argument":
                    f.set_options()  # changes nothing
                    feats.add("set-options-without-changes")
                elif not op[1]:
                    f.set_options(None if op[1] is None else {})
                    feats.add("set-options-without-changes")
                else:
                    f.set_options(dict(op[1]))
                    acc.update(op[1])
                    feats.add("option-change")
            elif op[0] == "permute-in-place":
                nodes = list(objs[cur])
                prng.shuffle(nodes)
                f.nodes(nodes)
                objs[cur] = nodes
                feats.add("permutation")
            elif op[0] == "failing-compute":
                if cur is None:
                    continue
                good = acc.get("algorithm", "overlap")
                f.set_options({"algorithm": "no-such-algorithm"})
                try:
                    f.compute()
                    ctx.path("failing-compute-did-not-fail")
                except Exception:
                    ctx.path("failing-compute-raised")
                mon.drain()
                f.set_options({"algorithm": good})
                feats.add("after-a-failing-compute")
            elif op[0] == "other-engine":
                g2 = Force(dict(op[1]))
                if op[2]:
                    g2.set_options({"nodeSpacing": 11, "stubWidth": 2})
                g2.nodes(WL.make_nodes(h["labelsB"][:20] or h["labelsA"][:20]))
                g2.compute()
                others.append(g2)
                mon.drain()
                feats.add("other-engine-alive")
            elif op[0] == "edit-in-place":
                # the caller changes width / position of the label objects the engine already laid out, then hands
                # the same objects to the same engine again
                for nd, l in zip(objs[cur], edit_labels(labels_of(objs[cur]), random.Random(op[1]))):
                    lab_of[id(nd)] = l
                    nd.width = l["w"]
                    nd.idealPos = l["pos"]
                if op[2]:
                    f.nodes(list(objs[cur]))
                feats.add("edited-in-place")
            elif op[0] == "compute":
                if cur is None:
                    continue
                if ncomputes and h["ops"][opi - 1][0] == "compute":
                    feats.add("recompute")
                f.compute()
                ncomputes += 1
                got = result_map(objs[cur])
                mon.drain()
                exp = reference(labels_of(objs[cur]), acc)
                mon.drain()
                if got != exp:
                    diff = [(k, got.get(k), exp.get(k)) for k in sorted(set(got) | set(exp), key=repr) if got.get(k) != exp.get(k)]
                    probs.append({"after_ops": h["ops"][: opi + 1][-4:], "n_differences": len(diff),
                                  "first": {"label(idealPos,width)": diff[0][0], "history": diff[0][1], "fresh": diff[0][2]}})
                    break
                final_nontrivial = any(li > 0 for v in got.values() for li, _ in v) or any(p != k[0] for k, v in got.items() for _, p in v)
    except Exception as e:
        probs.append({"raised": "%s: %s" % (type(e).__name__, e)})
    if h.get("budget_boundary"):
        feats.add("required-width-exactly-at-the-budget")
    primary = next((x for x in ("required-width-exactly-at-the-budget", "edited-in-place", "stale-nodes", "permutation", "option-change", "recompute", "second-label-set") if x in feats), "plain")
    if probs:
        ctx.judge(primary, VIOLATED, h, finding=probs, key="history-dependent" if "raised" not in probs[0] else "raised")
    else:
        ctx.judge(primary, HELD, h if (len(ctx.samples) < 2 and len(h["labelsA"]) <= 5 and len(h["labelsB"]) <= 5) else None,
                  nontrivial=bool(feats) and final_nontrivial, dig=repr((h["labelsA"], h["options"], h["ops"], h["perm_seed"])))
        for x in feats:
            if x != primary:
                ctx.stratum(x, generated=1, judged=1, held=1)


HASHSEEDS = ["0", "1", "7", "424242"]


def hashseed_shard(ctx, shard):
    """The same seeded batch of layouts computed in fresh processes that differ only in PYTHONHASHSEED
    (set/dict iteration order of str- and id-keyed collections): the results must be identical line by line."""
    import subprocess

    from vmon.core import PY, VERIF, jdumps, worker_env

    spec = {"seed": "%s:%s" % (ctx.seed, shard["sub"]), "n": shard["n"]}
    logs = {}
    for hs in HASHSEEDS:
        env = worker_env({"PYTHONHASHSEED": hs})
        env["PYTHONHASHSEED"] = hs
        p = subprocess.run([PY, "-m", "props.c06_batch", jdumps(spec)], cwd=VERIF, env=env, capture_output=True, text=True, timeout=1800)
        lines = p.stdout.splitlines()
        if p.returncode != 0 or not lines or lines[-1] != "END":
            ctx.judge("hash-seed", INCONCLUSIVE, {"spec": spec, "hashseed": hs}, reason="batch process failed: %s" % p.stderr[-300:])
            return
        logs[hs] = lines
    if len(set(logs[hs][0] for hs in HASHSEEDS)) < 2:
        ctx.judge("hash-seed", INCONCLUSIVE, {"spec": spec}, reason="hash seeds not in effect (sentinel lines equal)")
        return
    ref = logs[HASHSEEDS[0]][1:-1]
    for i, line in enumerate(ref):
        diff = {hs: logs[hs][1 + i][:200] for hs in HASHSEEDS[1:] if logs[hs][1 + i] != line}
        if line.split("|", 2)[2].startswith("EXC "):
            ctx.judge("hash-seed", INCONCLUSIVE, None, reason="layout raised in every process")
        elif diff:
            ctx.judge("hash-seed", VIOLATED, {"spec": spec, "case_index": i}, finding={"PYTHONHASHSEED=0": line[:200], "others": diff}, key="hash-seed-dependent")
        else:
            ctx.judge("hash-seed", HELD, None, nontrivial=True, dig=line[:160])
    ctx.event("hashseed_processes", len(HASHSEEDS))


def worker(ctx, shard):
    if shard["kind"] == "hashseed":
        hashseed_shard(ctx, shard)
        return
    from vmon.mon_layout import LayoutMonitor

    mon = LayoutMonitor().install()
    if shard["kind"] == "hist":
        rng = ctx.rng("hist%d" % shard["sub"])
        for _ in range(shard["n"]):
            if ctx.should_stop():
                break
            run_history(ctx, mon, gen_history(rng))
    elif shard["kind"] == "replay-case":
        run_history(ctx, mon, shard["case"])
    for k, v in mon.events.items():
        ctx.event(k, v)
    mon.uninstall()


def replay(ctx, witness):
    worker(ctx, {"kind": "replay-case", "case": witness.get("case") or {}})
