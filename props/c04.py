"""C04 - layering conserves labels and builds complete stub chains within capacity.

Deciding monitors: H4 (Distributor.distribute: input labels by identity -> returned
layers) and H1 (Force.compute: engine options; getLayers() afterwards); oracle:
oracles/layering.py (structural, exact).
"""

from oracles import layering as OLY
from vmon.core import HELD, INCONCLUSIVE, VIOLATED
from workloads import layout as WL

PROPERTY_ID = "C04"
LEVEL = "exploration"
RULE = (
    "two drivers: (direct) Distributor(options).distribute(nodes) with hostile options (layerWidth None/50..2000, density 0.05..1.0, spacing 0..7.5, "
    "stub width 0/1/4, algorithms overlap/simple/none; labels wider than a layer, all at one position, 1-2 labels) and (engine) Wlayout cases "
    "through Force.compute() followed by getLayers(). One evaluation = one layering observed by the H4 hook, judged for conservation, contiguous "
    "layers, complete stub chains (position, payload, width, parent/child links), no foreign items, reported layering, and capacity "
    "(single layer when no width/fits; overlap algorithm: every layer with >2 labels within density*width). Non-trivial = layering with >= 2 "
    "layers; distinct = distinct (positions, widths, options)."
)
ASSUMPTIONS = ["trailing empty layers (algorithm simple with fewer labels than layers) are tolerated: no item is lost", "capacity claims are judged for the default (overlap) algorithm only, as the statement says"]


def plan(tier, seed):
    k = 8 if tier == "quick" else 48
    return [{"kind": "direct", "sub": i, "n": 250 if tier == "quick" else 2500} for i in range(k)] + \
           [{"kind": "engine", "sub": i, "n": 150 if tier == "quick" else 1500} for i in range(k)] + \
           [{"kind": "insitu-exports", "n": 300 if tier == "quick" else 4000}]


def floors(tier):
    strata = ["%s/%s" % (a, c) for a in ("overlap", "simple") for c in ("fits", "split-2", "split-3+")] + \
             ["overlap/wide-label", "overlap/le2-labels-unfit", "none/no-split-expected", "overlap/no-split-expected", "engine-reported-layering", "engine-reconfigured", "engine-recompute-after-in-place-changes", "engine-with-another-engine-alive", "engine-with-stale-labels", "punted-coincident-labels-sharing-a-payload-object"]
    return {"evaluations": 800, "strata": strata, "events": {"Distributor.distribute": 800, "Force.compute": 300}, "distinct_nontrivial": 150}


def gen_direct(rng):
    n = rng.choice([1, 2, 2, 3, 3, 4, 5, 8, 15, 30, 60])
    model = rng.choice(["integers", "half", "uniform", "clusters", "ties", "same"])
    if model == "same":
        pos = [500.0] * n
    else:
        pos = WL.gen_positions(rng, n, model)
    wmode = rng.choice(["fixed", "table", "ints"])
    fw = rng.choice([10, 33.5, 50, 20])
    labels = [{"pos": p, "w": fw if wmode == "fixed" else WL.rand_width(rng, wmode)} for p in pos]
    opts = {"algorithm": rng.choice(["overlap", "overlap", "simple", "none"]),
            "layerWidth": rng.choice([None, 50, 100, 200, 500, 1000, 2000]),
            "density": rng.choice([0.05, 0.3, 0.75, 0.85, 1.0]),
            "nodeSpacing": rng.choice([0, 1, 3, 7.5]),
            "stubWidth": rng.choice([0, 1, 4])}
    if rng.random() < 0.1:
        labels[rng.randrange(n)]["w"] = 0  # an explicit width of 0 is a width
    if rng.random() < 0.15 and n >= 3 and opts["layerWidth"]:
        labels[rng.randrange(n)]["w"] = float(opts["layerWidth"]) + 10
    if rng.random() < 0.2 and opts["layerWidth"]:
        # put the requirement right at the budget
        req = sum(l["w"] for l in labels) + opts["nodeSpacing"] * (n - 1)
        opts["density"] = 1.0
        opts["layerWidth"] = rng.choice([req, req, req + 1e-9, req - 1e-9, req + 1, req - 1, req * (1 - 3e-7), req * (1 + 3e-7), req * (1 - 2e-8)])
        if opts["layerWidth"] <= 0:
            opts["layerWidth"] = 100
    return labels, opts


def judge_one(ctx, labels_nodes, layers, algo, lw, dens, sp, sw, case, force=None):
    probs, info = OLY.judge_layering(labels_nodes, layers, algo, lw, dens, sp, sw)
    stratum = "%s/%s" % (algo, info.get("class", "?"))
    if info.get("n_layers", 0) >= 2:
        seen = set()
        for L in layers[1:]:
            for n in L:
                if not n.isStub() and n.data is not None:
                    k = (n.idealPos, id(n.data))
                    if k in seen:
                        # two labels beyond the first layer at one data position with one payload object (seeded/C04o)
                        ctx.stratum("punted-coincident-labels-sharing-a-payload-object", generated=1, judged=1, held=0 if probs else 1)
                        seen = None
                        break
                    seen.add(k)
            if seen is None:
                break
    if force is not None and not probs:
        p2 = OLY.judge_reported(force.getLayers(), layers)
        ctx.stratum("engine-reported-layering", generated=1, judged=1, held=0 if p2 else 1)
        probs.extend(p2)
    if probs:
        ctx.judge(stratum, VIOLATED, case, finding={"problems": probs[:4], "info": info}, key=probs[0]["rule"])
    else:
        ctx.judge(stratum, HELD, dict(case, layer_sizes=[len(L) for L in layers]) if len(ctx.samples) < 3 and info["n_layers"] >= 2 and len(labels_nodes) <= 8 else None,
                  nontrivial=info["n_layers"] >= 2, dig=repr((case.get("labels"), case.get("options"), case.get("spec")))[:6000])


def run_direct(ctx, mon, labels, opts):
    from labella.distributor import Distributor

    case = {"driver": "direct", "labels": labels, "options": opts}
    nodes = WL.make_nodes(labels)
    try:
        Distributor(dict(opts)).distribute(nodes)
    except Exception as e:
        mon.drain_distributes()
        ctx.judge("%s/raised" % opts["algorithm"], VIOLATED, case, finding="distribute raised %s: %s" % (type(e).__name__, e), key="raised " + type(e).__name__)
        return
    recs = mon.drain_distributes()
    if len(recs) != 1 or recs[0]["layers"] is None:
        ctx.judge("direct", INCONCLUSIVE, case, reason="monitor saw %d distribute() calls" % len(recs))
        return
    r = recs[0]
    o = r["options"]
    judge_one(ctx, r["input"], r["layers"], o.get("algorithm"), o.get("layerWidth"), o.get("density"), o.get("nodeSpacing"), o.get("stubWidth"), case)


def run_engine(ctx, mon, labels, opts, tag, first=None):
    from labella.force import Force

    case = {"driver": "engine", "labels": labels, "options": opts, "tag": tag, "first_options": first}
    if first is None:
        f = Force(dict(opts))
    else:
        # re-configuration history: the engine was built with other options first (the H1 hook records the
        # options the engine holds when compute() runs; the layering is judged against those)
        f = Force(dict(first))
        f.set_options(dict(opts))
        ctx.stratum("engine-reconfigured", generated=1, judged=1, held=1)
    lst = WL.make_nodes(labels)
    if hash(repr(labels[:2])) % 5 == 2 and len(labels) <= 60:
        # the label objects come out of an earlier layout that had to split (stale stubs, layer indices): whatever this layout
        # decides, no label may keep a stub that is in no layer
        g = Force({"minPos": 0, "maxPos": 150, "density": 0.3, "stubWidth": 2})
        g.nodes(lst)
        try:
            g.compute()
        except Exception:
            pass
        mon.drain()
        case["stale_labels"] = True
        ctx.stratum("engine-with-stale-labels", generated=1, judged=1, held=1)
    f.nodes(lst)
    if hash(repr(labels[:2])) % 4 == 0:
        # another engine is constructed and configured between configuring this one and its compute(); it stays alive
        other = Force({"minPos": 0, "maxPos": 77, "density": 0.2, "algorithm": "simple", "stubWidth": 3, "nodeSpacing": 11})
        other.set_options({"maxPos": None})
        case["other_engine_alive"] = True
        ctx.stratum("engine-with-another-engine-alive", generated=1, judged=1, held=1)
    try:
        f.compute()
        if hash(repr(labels[:3])) % 5 == 1:
            # the caller's list grows and a label widens in place, no setter is called, compute() again: the engine reports the
            # layering of what it holds now
            from labella.node import Node

            mon.drain()
            lst.append(Node(labels[0]["pos"] + 17.0, max(l["w"] for l in labels) * 3 + 5, data=("L", len(labels))))
            lst[0].width = lst[0].width * 2 + 1
            f.compute()
            ctx.stratum("engine-recompute-after-in-place-changes", generated=1, judged=1, held=1)
    except Exception as e:
        mon.drain()
        ctx.judge("engine/raised", VIOLATED, case, finding="compute raised %s: %s" % (type(e).__name__, e), key="raised " + type(e).__name__)
        return
    recs = mon.drain()
    if len(recs) == 1 and recs[0]["distribute"] is None and recs[0]["exc"] is None and recs[0]["force"].getLayers():
        # compute() finished without going through the hooked layering step: fall back to the property's own observation
        # boundary - the layering the engine reports for the labels it holds
        recs[0]["distribute"] = {"layers": [list(L) for L in recs[0]["force"].getLayers()]}
        ctx.path("layering-taken-from-getLayers")
    if len(recs) != 1 or recs[0]["distribute"] is None or recs[0]["distribute"]["layers"] is None:
        ctx.judge("engine", INCONCLUSIVE, case, reason="monitor did not see the layering step inside compute()")
        return
    rec = recs[0]
    eo = rec["options"]
    given = dict(first or {})
    given.update(opts)
    lost = {k: [repr(v), repr(eo.get(k, "<absent>"))] for k, v in given.items() if eo.get(k, "<absent>") != v}
    if lost:
        ctx.judge("engine", VIOLATED, case, finding={"reason": "the engine does not hold the options it was given", "given_vs_held": lost}, key="engine-options-lost")
        return
    mn, mx = eo.get("minPos", 0), eo.get("maxPos")
    lw = (mx - mn) if (mn is not None and mx is not None) else None
    judge_one(ctx, rec["labels"], rec["distribute"]["layers"], eo.get("algorithm"), lw, eo.get("density"), eo.get("nodeSpacing"), eo.get("stubWidth"), case, force=rec["force"])


def worker(ctx, shard):
    from vmon.mon_layout import LayoutMonitor

    mon = LayoutMonitor().install()
    rng = ctx.rng("%s%d" % (shard["kind"], shard.get("sub", 0)))
    if shard["kind"] == "direct":
        for _ in range(shard["n"]):
            if ctx.should_stop():
                break
            labels, opts = gen_direct(rng)
            run_direct(ctx, mon, labels, opts)
    elif shard["kind"] == "engine":
        for _ in range(shard["n"]):
            if ctx.should_stop():
                break
            labels, opts, tag = WL.gen_case(rng, max_n=120)
            first = None
            if rng.random() < 0.3:
                first = rng.choice([{"minPos": 0, "maxPos": 100, "density": 0.5}, {"maxPos": 300, "algorithm": "simple"}, {"minPos": None, "stubWidth": 4},
                                    {"maxPos": 1000, "nodeSpacing": 7.5, "density": 1}])
                opts = dict(opts)
                for k in ("minPos", "maxPos"):
                    if k not in opts and k in first and rng.random() < 0.6:
                        opts[k] = None if k == "maxPos" else 0  # explicitly remove / reset the bound of the first configuration
                eff = dict({"minPos": 0, "maxPos": None}, **first)
                eff.update(opts)
                if eff["minPos"] is not None and eff["maxPos"] is not None and eff["maxPos"] <= eff["minPos"]:
                    opts["maxPos"] = None  # an upper bound left over from the first configuration below the new lower bound: not a configuration
            run_engine(ctx, mon, labels, opts, tag, first=first)
    elif shard["kind"] == "insitu-exports" or (shard["kind"] == "replay-case" and "spec" in shard["case"]):
        from props import export_common as EC
        from workloads import tl as TL

        class _M(object):
            layout = mon

        specs = [shard["case"]["spec"]] if shard["kind"] == "replay-case" else None
        for k in range(len(specs) if specs else shard["n"]):
            if ctx.should_stop():
                break
            spec = specs[k] if specs else TL.gen_spec(rng)
            res = EC.export_one(spec, "svg", _M, parse=False)
            rec = res.get("compute_record")
            if res["exc"] is not None or rec is None or rec["distribute"] is None or rec["distribute"]["layers"] is None:
                continue
            eo = rec["options"]
            mn, mx = eo.get("minPos", 0), eo.get("maxPos")
            lw = (mx - mn) if (mn is not None and mx is not None) else None
            ctx.stratum("insitu-exports", generated=1, judged=1, held=1)
            judge_one(ctx, rec["labels"], rec["distribute"]["layers"], eo.get("algorithm"), lw, eo.get("density"), eo.get("nodeSpacing"), eo.get("stubWidth"),
                      {"driver": "insitu-export", "spec": spec}, force=rec["force"])
    elif shard["kind"] == "replay-case":
        c = shard["case"]
        if c.get("driver") == "direct":
            run_direct(ctx, mon, c["labels"], c["options"])
        else:
            run_engine(ctx, mon, c["labels"], c["options"], c.get("tag", "replay"), first=c.get("first_options"))
    for k, v in mon.events.items():
        ctx.event(k, v)
    mon.uninstall()


def replay(ctx, witness):
    worker(ctx, {"kind": "replay-case", "case": witness.get("case") or {}})
