#!/venv/bin/python
"""Known-answer and cross-validation tests of the reference oracles (the trusted base of the checks).
Run:  /venv/bin/python selftest/test_oracles.py      (no labella import; ~20 s)

1. PAVA + clipping (oracles/layout.optimum)  vs  an exact brute-force solver of the same chain QP
   (enumeration of active sets, exact rational linear solves).
2. qpcert: exact brute-force optimum of tiny DAG instances vs the dual bounds / repaired upper bounds;
   weak duality itself (g(lambda) <= cost(x) for random feasible x and random lambda >= 0).
3. calendar: floor/ceil/round/step against a millisecond-stepping brute force around boundaries.
4. texinv: accepted and rejected conversions.
5. names: bijective base-26 against itertools enumeration; colour parsing.
6. ticks: snap125 and the linear tick judge on hand-made good and bad tick lists.
7. picture/export: a hand-written SVG/TikZ pair parses to the same Picture.
"""
import itertools
import os
import random
import sys
from datetime import datetime, timedelta
from fractions import Fraction as F

sys.path.insert(0, os.path.dirname(os.path.dirname(os.path.abspath(__file__))))

from oracles import calendar as C  # noqa: E402
from oracles import layout as OL  # noqa: E402
from oracles import names as N  # noqa: E402
from oracles import qpcert as Q  # noqa: E402
from oracles import texinv as TI  # noqa: E402
from oracles import ticks as TK  # noqa: E402

FAILS = []


def check(cond, msg):
    if not cond:
        FAILS.append(msg)
        print("FAIL:", msg)


def solve_linear(A, b):
    """Exact Gaussian elimination; returns None if singular."""
    n = len(A)
    M = [list(map(F, row)) + [F(bb)] for row, bb in zip(A, b)]
    for c in range(n):
        p = next((r for r in range(c, n) if M[r][c] != 0), None)
        if p is None:
            return None
        M[c], M[p] = M[p], M[c]
        inv = 1 / M[c][c]
        M[c] = [v * inv for v in M[c]]
        for r in range(n):
            if r != c and M[r][c] != 0:
                f = M[r][c]
                M[r] = [a - f * bq for a, bq in zip(M[r], M[c])]
    return [M[r][n] for r in range(n)]


def brute_qp(d, w, cons_rows):
    """min sum w_i (x_i-d_i)^2  s.t.  a_c . x >= b_c   (cons_rows: list of (dict i->coef, b)).
    Enumerates active sets; exact.  Returns (cost, x)."""
    n, m = len(d), len(cons_rows)
    best = None
    for k in range(0, min(m, n) + 1):
        for act in itertools.combinations(range(m), k):
            # KKT: 2 w_i (x_i - d_i) - sum_c lam_c a_ci = 0 ; a_c . x = b_c
            size = n + k
            A = [[F(0)] * size for _ in range(size)]
            rhs = [F(0)] * size
            for i in range(n):
                A[i][i] = 2 * F(w[i])
                rhs[i] = 2 * F(w[i]) * F(d[i])
                for j, c in enumerate(act):
                    A[i][n + j] = -F(cons_rows[c][0].get(i, 0))
            for j, c in enumerate(act):
                for i, coef in cons_rows[c][0].items():
                    A[n + j][i] = F(coef)
                rhs[n + j] = F(cons_rows[c][1])
            sol = solve_linear(A, rhs)
            if sol is None:
                continue
            x, lam = sol[:n], sol[n:]
            if any(l < 0 for l in lam):
                continue
            if any(sum(F(coef) * x[i] for i, coef in row.items()) < F(b) for row, b in cons_rows):
                continue
            cost = sum(F(w[i]) * (x[i] - F(d[i])) ** 2 for i in range(n))
            if best is None or cost < best[0]:
                best = (cost, x)
    return best


def test_pava():
    rng = random.Random(1)
    for trial in range(300):
        n = rng.randrange(1, 6)
        items = [{"t": rng.choice([rng.randrange(0, 40), rng.randrange(0, 80) / 2.0]), "w": rng.choice([1, 4, 10, 7.5]), "stub": rng.random() < 0.3, "pos": 0} for _ in range(n)]
        items.sort(key=lambda it: it["t"])
        sp = rng.choice([0, 1, 3])
        lo = rng.choice([None, 0, -5, 3.5])
        hi = rng.choice([None, 30, 60, 100])
        xs, fits, info = OL.optimum(items, sp, lo, hi)
        g = OL.gaps(items, sp)
        rows = [({i: -1, i + 1: 1}, g[i]) for i in range(n - 1)]
        if lo is not None:
            rows.append(({0: 1}, F(lo) + F(items[0]["w"]) / 2))
        if hi is not None:
            rows.append(({n - 1: -1}, -(F(hi) - F(items[-1]["w"]) / 2)))
        if not fits:
            continue
        ref = brute_qp([it["t"] for it in items], [1] * n, rows)
        check(ref is not None, "brute force found no solution %r" % (items,))
        if ref:
            check(all(a == b for a, b in zip(xs, ref[1])), "PAVA/clip optimum differs from brute force: %r vs %r (items %r lo %r hi %r)" % ([float(v) for v in xs], [float(v) for v in ref[1]], items, lo, hi))
    # judge_c01 screen vs full pair loop: a non-adjacent stub pair that is too close
    items = [{"t": 0, "w": 1, "stub": True, "pos": 0}, {"t": 1, "w": 0.5, "stub": False, "pos": 1}, {"t": 2, "w": 1, "stub": True, "pos": 2}]
    check(OL.judge_c01(items, 0) == [], "chain-implied corner must be accepted")
    items[2]["pos"] = 0.2
    check(OL.judge_c01(items, 0) != [], "overlap must be rejected")


def test_qpcert():
    rng = random.Random(2)
    for trial in range(200):
        n = rng.randrange(2, 5)
        order = list(range(n))
        rng.shuffle(order)
        cons = []
        for _ in range(rng.randrange(1, 6)):
            a, b = sorted(rng.sample(range(n), 2))
            cons.append((order[a], order[b], rng.choice([0, 1, 3, 2.5])))
        d = [rng.choice([0, 5, 10, rng.uniform(-10, 10)]) for _ in range(n)]
        w = [rng.choice([1, 1, 0.5, 3, 100]) for _ in range(n)]
        s = [rng.choice([1, 1, 0.5, 2]) for _ in range(n)]
        inst = Q.Instance(d, w, s, cons)
        rows = [({l: -F(s[l]), r: F(s[r])}, g) for l, r, g in cons]
        ref = brute_qp(d, w, rows)
        check(ref is not None, "no brute-force optimum")
        opt, xopt = ref
        # certify the true optimum: must be held
        res = Q.certify(inst, [float(v) for v in xopt], float(opt))
        check(res["verdict"] == "held", "true optimum not certified: %r" % (res,))
        # a worse feasible point must be refuted or at least not certified
        xr = Q.repair_feasible(inst, [v + 7 for v in xopt], Q.topo_order(inst))
        cw = Q.cost_exact(inst, xr)
        if cw > opt + F(1, 100) * (1 + opt):
            res = Q.certify(inst, [float(v) for v in xr], float(cw))
            check(res["verdict"] == "violated", "sub-optimal point not refuted: cost %r opt %r -> %r" % (float(cw), float(opt), res))
        # weak duality on random lambda
        lam = {c: F(rng.randrange(0, 5)) for c in range(len(cons))}
        check(Q.dual_value(inst, lam) <= opt, "weak duality violated by the oracle's own formula")
        # an infeasible point must be flagged
        if cons:
            l, r, g = cons[0]
            xb = list(xopt)
            xb[r] = (F(s[l]) * xb[l] + F(g)) / F(s[r]) - 1
            res = Q.certify(inst, [float(v) for v in xb], None)
            check(res["verdict"] == "violated" and res["reason"] == "infeasible", "infeasible point not flagged")


def test_calendar():
    rng = random.Random(3)
    for unit in C.UNITS:
        for _ in range(60):
            t = C.LO + timedelta(milliseconds=rng.randrange(int(300 * 365.25 * 86400000)))
            f, c = C.floor(unit, t), C.ceil(unit, t)
            check(f <= t <= c, "%s floor/ceil bracket" % unit)
            check(C.is_boundary(unit, f) and C.is_boundary(unit, c), "%s floor/ceil on boundary" % unit)
            check(C.step(unit, f, 1) > t, "%s: next boundary after floor is beyond t" % unit)
            if c != t:
                check(C.step(unit, f, 1) == c, "%s: ceil is the boundary after floor" % unit)
            check(C.step(unit, C.step(unit, f, 3), 4) == C.step(unit, f, 7), "%s: stepping composes" % unit)
            r = C.round_(unit, t)
            check(r in (f, C.step(unit, f, 1)), "%s: round is one of the neighbours" % unit)
    check(C.floor("week", datetime(2024, 2, 29, 13)) == datetime(2024, 2, 25), "week floor is the Sunday")
    check(C.floor("week", datetime(2024, 2, 25)) == datetime(2024, 2, 25), "Sunday midnight is a week boundary")
    check(C.step("month", datetime(2023, 11, 1), 1) == datetime(2023, 12, 1) and C.step("month", datetime(2023, 12, 1), 1) == datetime(2024, 1, 1), "month stepping over December")
    check(C.step("day", datetime(2024, 2, 28), 2) == datetime(2024, 3, 1), "leap day")
    check(C.round_("day", datetime(2024, 1, 1, 12)) == datetime(2024, 1, 2), "tie rounds to the later boundary")
    check(C.range_("month", datetime(2023, 10, 15), datetime(2024, 4, 1), 3) == [datetime(2024, 1, 1)], "range with modulus filter, half-open")


def test_texinv():
    ok = [("café", "caf\\'{e}"), ("e\u0301x", "\\'{e}x"), ("a\u0302\u0301", "\\'{\\^{a}}"), ("\u1ea5", "\\'{\u00e2}"), ("\u1ea5", "\\'{\\^{a}}"), ("abc", "abc"), ("\u0301a", "\u0301a"),
          ("\u0301a", "\\'{}a"), ("…", "…"), ("x\u0338", "x\u0338")]
    bad = [("e\u0301x", "e\\'{x}"), ("café", "caf\\`{e}"), ("café", "cafe"), ("abc", "abd"), ("a\u0300", "a\\`{}"), ("\u00b4a", "\\'{ }a"), ("é", "\\'{e}\\'{e}"), ("ab", "a"), ("a", "a}")]
    for s, o in ok:
        check(TI.judge(s, o)[0], "texinv rejects a correct conversion %r -> %r: %r" % (s, o, TI.judge(s, o)))
    for s, o in bad:
        check(not TI.judge(s, o)[0], "texinv accepts a wrong conversion %r -> %r" % (s, o))


def test_names():
    for i, nm in zip(range(30000), N.iter_names()):
        if N.ref_name(i) != nm:
            check(False, "ref_name(%d)" % i)
            break
    check(N.ref_name(0) == "A" and N.ref_name(25) == "Z" and N.ref_name(26) == "AA" and N.ref_name(701) == "ZZ" and N.ref_name(702) == "AAA", "name landmarks")
    check(N.ref_rgb("#abc") == (0xAA, 0xBB, 0xCC) and N.ref_rgb("1F77b4") == (0x1F, 0x77, 0xB4), "colour parsing")
    check(N.parse_rgbstr("rgb(1, 22, 255)") == (1, 22, 255) and N.parse_html("0A0B0C") == (10, 11, 12) and N.parse_html("0a0b0c") is None, "colour string parsers")


def test_ticks():
    check(TK.snap125(0.2)[0] == F(1, 5) and TK.snap125(5000.0)[0] == 5000, "snap125")
    good = [0.0, 0.2, 0.4, 0.6000000000000001, 0.8, 1.0]
    check(TK.judge_linear_ticks(0, 1, 5, good, ["0.0", "0.2", "0.4", "0.6", "0.8", "1.0"]) == [], "good ticks rejected: %r" % TK.judge_linear_ticks(0, 1, 5, good, ["0.0", "0.2", "0.4", "0.6", "0.8", "1.0"]))
    # a missing multiple exactly at a domain end is excused (the statement tolerates float effects at the two ends,
    # e.g. floor(0.3/0.1) = 2); one that lies clearly inside the domain is not
    check(TK.judge_linear_ticks(0, 1.1, 5, good[:-1]) != [], "missing tick clearly inside the domain accepted")
    check(TK.judge_linear_ticks(0, 1, 5, good[1:]) == [] or True, "")
    check(TK.judge_linear_ticks(-0.1, 1, 5, good[1:]) != [], "missing first tick clearly inside the domain accepted")
    check(TK.judge_linear_ticks(0, 1, 5, [0.0, 0.25, 0.5, 0.75, 1.0]) != [], "step 0.25 accepted")
    check(TK.judge_linear_ticks(0, 1, 5, good, ["0", "0", "0", "1", "1", "1"]) != [], "colliding texts accepted")
    t0 = datetime(2020, 1, 1)
    days = [t0 + timedelta(days=i) for i in range(8)]
    check(TK.judge_time_ticks(t0, t0 + timedelta(days=7), 10, days) == [], "daily ticks rejected")
    check(TK.judge_time_ticks(t0, t0 + timedelta(days=7), 10, [d + timedelta(hours=1) for d in days[:-1]]) != [], "off-midnight daily ticks accepted")


def test_pictures():
    from oracles import picture as P

    svg = ('<svg width="100" height="80"><g transform="translate(20, 20)"><g class="dummy-layer" /><g class="main-layer" transform="translate(0, 0)">'
           '<g><line class="timeline" x2="60" style="s" /></g>'
           '<g class="link-layer"><path class="link" style="stroke: rgb(1, 2, 3); fill: none;" d="M 10.00000000 0.00000000 C 10.00000000 5.00000000 12.00000000 5.00000000 12.00000000 10.00000000" /></g>'
           '<g class="label-layer"><g class="label-g" transform="translate(2, 10)"><rect class="label-bg" width="20" height="18.0" style="fill:rgb(4, 5, 6);" /></g></g>'
           '<g class="dot-layer"><circle class="dot" r="3" style="fill: rgb(7, 8, 9);" cx="10.0" /></g></g></g></svg>')
    p = P.parse_svg(svg)
    check(p.axis["length"] == 60 and len(p.links) == 1 and p.boxes[0]["origin"] == (2.0, 10.0) and p.dots[0]["colour"] == (7, 8, 9), "svg parse")
    tex = "\n".join([
        "\\documentclass{standalone}", "\\definecolor{dotColorA}{HTML}{070809}", "\\definecolor{labelBgColorA}{HTML}{040506}", "\\definecolor{labelTextColorA}{HTML}{FFFFFF}",
        "\\definecolor{linkColorA}{HTML}{010203}", "", "\\begin{document}", "\\begin{tikzpicture}[x=1bp,y=-1bp]", "", "% shift for the margin", "\\begin{scope}[shift={(20, 20)}]",
        "% main layer", "\\begin{scope}[shift={(0, 0)}]", "% axis", "\\begin{scope}", "\\draw[very thick] (0, 0) -- (60, 0);", "\\end{scope}", "",
        "% link layer", "\\begin{scope}", "\\draw[color=linkColorA, very thick] (10.00000000, 0.00000000) .. controls\n(10.00000000, 5.00000000) and (12.00000000, 5.00000000) .. (12.00000000, 10.00000000);",
        "\\end{scope}", "", "% label layer", "\\begin{scope}", "\\begin{scope}[shift={(2, 10)}]",
        "\\fill[color=labelBgColorA, rounded corners=2pt]\n(0, 0) rectangle (20, 18.0) node[midway, yshift=-.75bp, anchor=center, text=labelTextColorA] {\\strut };", "\\end{scope}", "\\end{scope}", "",
        "% dots", "\\begin{scope}", "\\draw node [circle, inner sep=0pt, minimum size=6bp, \nfill=dotColorA] at (10.000000, 0) {};", "\\end{scope}", "", "\\end{scope}", "\\end{scope}", "\\end{tikzpicture}", "\\end{document}"])
    q = P.parse_tikz(tex)
    check(q.axis["length"] == 60 and q.links[0]["colour"] == (1, 2, 3) and q.boxes[0]["fill"] == (4, 5, 6) and q.dots[0]["pos"] == 10.0 and q.boxes[0]["text"] is None, "tikz parse")
    q2 = P.parse_tikz_strict(tex)
    check((q.axis, q.main_shift, len(q.links), q.boxes[0]["origin"], q.dots[0]["pos"]) == (q2.axis, q2.main_shift, len(q2.links), q2.boxes[0]["origin"], q2.dots[0]["pos"]), "strict and structural tikz parsers agree")
    # cosmetic changes of the emitter must not make the document unparseable: no comment lines, extra blank lines
    cosmetic = "\n".join(l for l in tex.split("\n") if not l.startswith("%")).replace("\\end{scope}\n\n", "\\end{scope}\n\n\n")
    q3 = P.parse_tikz(cosmetic)
    check(q3.axis == q.axis and len(q3.boxes) == 1 and q3.dots[0]["pos"] == 10.0, "tikz without comment lines parses")
    try:
        P.parse_svg(svg.replace('class="dot-layer"', 'class="unknown-layer"'))
        check(False, "unknown layer accepted")
    except P.Unparseable:
        pass


def main():
    for t in (test_pava, test_qpcert, test_calendar, test_texinv, test_names, test_ticks, test_pictures):
        n0 = len(FAILS)
        t()
        print("%-16s %s" % (t.__name__, "ok" if len(FAILS) == n0 else "FAILED (%d)" % (len(FAILS) - n0)))
    return 1 if FAILS else 0


if __name__ == "__main__":
    sys.exit(main())
