#!/venv/bin/python
"""Sensitivity self-test: applies each mutant to a scratch copy of /repo (outside /repo and
/verif), confirms the repo's own tests still pass there, runs the target properties' checks
against the copy (VERIF_REPO) and reports which check catches it.  Scratch copies are removed.

    selftest/run_mutants.py [--only NAME_SUBSTR] [--tier quick|thorough] [--jobs N] [--seeded]
"""
import argparse
import importlib.util
import json
import os
import shutil
import subprocess
import sys
import tempfile
import time

VERIF = os.path.dirname(os.path.dirname(os.path.abspath(__file__)))
REPO = "/repo"
PY = "/venv/bin/python"


def load_mutants(equivalent=False):
    spec = importlib.util.spec_from_file_location("mutants", os.path.join(VERIF, "selftest", "mutants.py"))
    m = importlib.util.module_from_spec(spec)
    spec.loader.exec_module(m)
    return m.EQUIVALENT if equivalent else m.MUTANTS


def load_seeded():
    out = []
    d = os.path.join(VERIF, "seeded")
    for name in sorted(os.listdir(d)) if os.path.isdir(d) else []:
        meta = os.path.join(d, name, "meta.json")
        patch = os.path.join(d, name, "patch.diff")
        if os.path.exists(meta) and os.path.exists(patch):
            mj = json.load(open(meta))
            out.append({"name": "seeded/" + name, "props": mj.get("checks") or [mj["property"]], "patch": patch,
                        "outside_quantifier": mj.get("outside_quantifier")})
    return out


def make_scratch():
    d = tempfile.mkdtemp(prefix="vt-mut-", dir="/tmp")
    for sub in ("labella", "tests"):
        shutil.copytree(os.path.join(REPO, sub), os.path.join(d, sub))
    for f in ("setup.py", "pyproject.toml", "README.rst"):
        if os.path.exists(os.path.join(REPO, f)):
            shutil.copy(os.path.join(REPO, f), d)
    return d


def apply(mut, d):
    if "patch" in mut:
        r = subprocess.run(["git", "apply", "--unsafe-paths", "--directory", d, mut["patch"]], cwd="/", capture_output=True, text=True)
        if r.returncode != 0:
            r = subprocess.run(["patch", "-p1", "-d", d, "-i", mut["patch"]], capture_output=True, text=True)
        return r.returncode == 0, (r.stdout + r.stderr)[-400:]
    for fn, old, new in mut["edits"]:
        p = os.path.join(d, fn)
        s = open(p).read()
        if s.count(old) != 1:
            return False, "pattern occurs %d times in %s" % (s.count(old), fn)
        open(p, "w").write(s.replace(old, new))
    return True, ""


def run_tests(d):
    env = dict(os.environ, PYTHONPATH=d, PYTHONDONTWRITEBYTECODE="1")
    try:
        r = subprocess.run([PY, "-m", "pytest", "-q", "-x", "-p", "no:cacheprovider", "--timeout=60", "tests"], cwd=d, env=env, capture_output=True, text=True, timeout=600)
    except subprocess.TimeoutExpired:
        return False, "test run timed out"
    return r.returncode == 0, r.stdout[-300:]


def run_check(pid, d, tier, seed):
    evdir = os.path.join(VERIF, "out", "selftest-evidence")
    env = dict(os.environ, VERIF_REPO=d, VERIF_EVIDENCE_DIR=evdir, VERIF_SEED=str(seed))
    t0 = time.time()
    sys.stdout.flush()
    try:
        r = subprocess.run([os.path.join(VERIF, "check"), pid, "--tier", tier], cwd=VERIF, env=env, capture_output=True, text=True, timeout=1500)
    except subprocess.TimeoutExpired:
        subprocess.run("pkill -f vmon.worker", shell=True)
        return 2, time.time() - t0, "check timed out (watchdog): inconclusive"
    first = ""
    for line in r.stdout.splitlines():
        if line.startswith(("  key=", "INCONCLUSIVE")):
            first = line.strip()[:260]
            break
    rc = r.returncode
    if rc == 1 and "VIOLATION property=%s " % pid not in r.stdout:
        rc = 3  # the check itself crashed: not a detection
        first = (r.stderr or r.stdout)[-260:].replace("\n", " | ")
    return rc, time.time() - t0, first


def main():
    ap = argparse.ArgumentParser()
    ap.add_argument("--only", default=None)
    ap.add_argument("--tier", default="quick")
    ap.add_argument("--seed", type=int, default=0)
    ap.add_argument("--seeded", action="store_true")
    ap.add_argument("--equivalent", action="store_true", help="behaviour-preserving edits: every check must stay silent")
    ap.add_argument("--out", default=os.path.join(VERIF, "selftest", "results.json"))
    a = ap.parse_args()
    muts = load_seeded() if a.seeded else load_mutants(a.equivalent)
    if a.only:
        muts = [m for m in muts if a.only in m["name"]]
    results = []
    for mut in muts:
        d = make_scratch()
        try:
            ok, msg = apply(mut, d)
            if not ok:
                results.append({"name": mut["name"], "status": "patch-failed", "detail": msg})
                print("%-46s PATCH FAILED %s" % (mut["name"], msg))
                continue
            tests_ok, tail = run_tests(d)
            row = {"name": mut["name"], "tests_pass": tests_ok, "checks": {}}
            for pid in mut["props"]:
                rc, dt, first = run_check(pid, d, a.tier, a.seed)
                row["checks"][pid] = {"exit": rc, "wall_s": round(dt, 1), "first": first}
            caught = [p for p, c in row["checks"].items() if c["exit"] == 1]
            incon = [p for p, c in row["checks"].items() if c["exit"] == 2]
            crashed = [p for p, c in row["checks"].items() if c["exit"] == 3]
            if crashed:
                print("      CHECK CRASHED: %s" % crashed)
            row["status"] = "caught" if caught else ("inconclusive" if incon else "MISSED")
            if row["status"] == "MISSED" and mut.get("outside_quantifier"):
                # kept for the record: the change needs inputs the property does not quantify over (reason in meta.json)
                row["status"] = "outside-quantifier"
                row["outside_quantifier"] = mut["outside_quantifier"]
            if a.equivalent:
                row["status"] = "silent" if all(c["exit"] == 0 for c in row["checks"].values()) else "FALSE-ALARM"
            results.append(row)
            print("%-46s tests=%s %s  %s" % (mut["name"], "pass" if tests_ok else "FAIL", row["status"],
                                            " ".join("%s:%d(%.0fs)" % (p, c["exit"], c["wall_s"]) for p, c in row["checks"].items())))
            for p, c in row["checks"].items():
                if c["first"]:
                    print("      %s %s" % (p, c["first"][:200]))
        finally:
            shutil.rmtree(d, ignore_errors=True)
    json.dump(results, open(a.out, "w"), indent=1)
    missed = [r["name"] for r in results if r.get("status") == "MISSED"]
    print("mutants: %d, caught: %d, inconclusive: %d, missed: %d %s" % (
        len(results), sum(r.get("status") == "caught" for r in results), sum(r.get("status") == "inconclusive" for r in results), len(missed), missed))


if __name__ == "__main__":
    main()
