"""Hand-planted property-breaking changes (the X: lists of DESIGN.md section 4).
Each is a unique-substring replacement applied to a scratch copy of /repo.
`props` lists the checks expected to catch it."""

RO = "labella/removeOverlap.py"
VP = "labella/vpsc.py"
FO = "labella/force.py"
DI = "labella/distributor.py"
NO = "labella/node.py"
SC = "labella/scale.py"
DT = "labella/d3_time.py"
TX = "labella/tex.py"
UT = "labella/utils.py"
TL = "labella/timeline.py"
RE = "labella/renderer.py"

MUTANTS = []


def M(name, props, *edits):
    MUTANTS.append({"name": name, "props": props, "edits": [tuple(e) for e in edits]})


# ---- C01 / C02 / C03 -------------------------------------------------------
M("c01-gap-drops-spacing", ["C01"], (RO, 'gap = (v1.node.width + v2.node.width) / 2 + options["nodeSpacing"]', "gap = (v1.node.width + v2.node.width) / 2"))
M("c01-stubstub-uses-nodespacing", ["C01"], (RO, 'gap = (v1.node.width + v2.node.width) / 2 + options["lineSpacing"]', 'gap = (v1.node.width + v2.node.width) / 2 + min(options["nodeSpacing"], options["lineSpacing"])'))
M("c01-gap-uses-w1-only", ["C01"], (RO, 'gap = (v1.node.width + v2.node.width) / 2 + options["nodeSpacing"]', 'gap = (v1.node.width + v1.node.width) / 2 + options["nodeSpacing"]'))
M("c01-sort-by-idealpos", ["C01", "C02"], (RO, "nodes.sort(key=lambda x: x.targetPos)", "nodes.sort(key=lambda x: x.idealPos)"))
M("c01-zero-upperbound-loose", ["C01", "C05"], (VP, "ZERO_UPPERBOUND = -1e-10", "ZERO_UPPERBOUND = -1.5"))
M("c01-revert-satisfy-fix", ["C01", "C05"], (VP, "                    self.bs.merge(v)\n            v = self.mostViolated()\n", "                    self.bs.merge(v)\n"))
M("c02-round-to-floor", ["C02", "C08"], (RO, "v.node.currentPos = round(v.position())", "v.node.currentPos = int(v.position())"))
M("c02-wall-weight-10", ["C02", "C03"], (RO, 'leftWall = vpsc.Variable(options["minPos"], 1e10)', 'leftWall = vpsc.Variable(options["minPos"], 10)'), (RO, 'rightWall = vpsc.Variable(options["maxPos"], 1e10)', 'rightWall = vpsc.Variable(options["maxPos"], 10)'))
M("c02-never-split", ["C02", "C05"], (VP, "LAGRANGIAN_TOLERANCE = -1e-4", "LAGRANGIAN_TOLERANCE = -1e12"))
M("c02-target-idealpos-deeper", ["C02", "C07"], (RO, "node.parent.currentPos if node.parent else node.idealPos", "node.idealPos if node.parent else node.idealPos"))
M("c02-merge-dist-sign", ["C02", "C05", "C01"], (VP, "            r.mergeAcross(l, c, dist)", "            r.mergeAcross(l, c, -dist)"))
M("c03-right-wall-on-first", ["C03"], (RO, "        lastv = last(variables)\n", "        lastv = variables[1] if len(variables) > 1 else variables[0]\n"))
M("c03-wall-weight-1e2", ["C03", "C02"], (RO, 'rightWall = vpsc.Variable(options["maxPos"], 1e10)', 'rightWall = vpsc.Variable(options["maxPos"], 1e2)'))
M("c03-maxpos-not-passed", ["C03", "C02"], (FO, "            if k in removeOverlap.DEFAULT_OPTIONS\n        }\n\n        for node", '            if k in removeOverlap.DEFAULT_OPTIONS and k != "maxPos"\n        }\n\n        for node'))
M("c03-left-wall-gap-zero", ["C03", "C02"], (RO, "constraints.append(vpsc.Constraint(leftWall, v, v.node.width / 2))", "constraints.append(vpsc.Constraint(leftWall, v, 0))"))

# ---- C05 -------------------------------------------------------------------
M("c05-lm-sign-swap", ["C05"], (VP, "                dfdv += _dfdv * c.right.scale\n                c.lm = -_dfdv", "                dfdv += _dfdv * c.right.scale\n                c.lm = _dfdv"))
M("c05-mergeacross-forgets-offset", ["C05", "C01"], (VP, "            v.offset += dist\n", "            v.offset += 0\n"))
M("c05-cost-ignores-weight", ["C05"], (VP, "            _sum += d * d * v.weight", "            _sum += d * d"))
M("c05-scale-ignored-in-stats", ["C05"], (VP, "        ai = self.scale / v.scale", "        ai = 1.0"))

# ---- C12 - C16 -------------------------------------------------------------
M("c12-revert-copy-fix", ["C12"], (SC, "            list(self._domain),\n            list(self._range),", "            self._domain,\n            self._range,"))
M("c12-clamp-no-rescale", ["C12"], (SC, "        self._clamp = x\n        return self.rescale()", "        self._clamp = x\n        return self"))
M("c12-invert-unclamped-range-order", ["C12"], (SC, "            self._range, self._domain, uninterpolate, d3_interpolate\n", "            self._range[::-1], self._domain, uninterpolate, d3_interpolate\n"))
M("c12-nice-no-rescale", ["C12", "C14"], (SC, "        d3_scale_linearNice(self._domain, m)\n        return self.rescale()", "        d3_scale_linearNice(self._domain, m)\n        return self"))
M("c13-thresholds-permuted", ["C13"], (SC, "    if err <= 0.15:\n        step *= 10\n    elif err <= 0.35:\n        step *= 5", "    if err <= 0.15:\n        step *= 10\n    elif err <= 0.35:\n        step *= 4"))
M("c13-floor-ceil-start", ["C13"], (SC, "    extent[0] = math.ceil(extent[0] / step) * step", "    extent[0] = math.floor(extent[0] / step) * step"))
M("c13-last-tick-lost", ["C13"], (SC, "math.floor(extent[1] / step) * step + step * 0.5", "math.floor(extent[1] / step) * step"))
M("c13-precision-no-guard", ["C13"], (SC, "    return -math.floor(math.log(value) / math.log(10) + 0.01)", "    return -math.floor(math.log(value) / math.log(10) + 0.01) - 1"))
M("c14-single-nice-pass", ["C14"], (SC, "    d3_scale_nice(\n        domain, d3_scale_niceStep(d3_scale_linearTickRange(domain, m)[2])\n    )\n    d3_scale_nice(\n        domain, d3_scale_niceStep(d3_scale_linearTickRange(domain, m)[2])\n    )\n    return domain",
  "    d3_scale_nice(\n        domain, d3_scale_niceStep(d3_scale_linearTickRange(domain, m)[2] * 3)\n    )\n    return domain"))
M("c14-time-nice-ceil-uses-floor", ["C14"], (SC, "def time_nice_ceil(date, skipped, interval):\n    newdate = interval.ceil(date)", "def time_nice_ceil(date, skipped, interval):\n    newdate = interval.floor(date)"))
M("c14-nice-swapped-reversed", ["C14"], (SC, "        domain[i0] = nice.floor(x0)\n        domain[i1] = nice.ceil(x1)", "        domain[i0] = nice.floor(x0) if i0 == 0 else nice.ceil(x0)\n        domain[i1] = nice.ceil(x1) if i0 == 0 else nice.floor(x1)"))
M("c15-dt2milli-drops-ms", ["C15"], (DT, "dt2milli = lambda x: (x - EPOCH) / timedelta(milliseconds=1)", "dt2milli = lambda x: float((x - EPOCH) // timedelta(seconds=1)) * 1000.0"))
M("c15-invert-no-milli2dt", ["C15"], (SC, "        return milli2dt(self._linear.invert(x))", "        return milli2dt(self._linear.invert(x) + 2.5)"))
M("c16-bisect-ge", ["C16"], (SC, "        if a[mid] > x:", "        if a[mid] >= x and mid % 5 == 4:"))
M("c16-ratio-inverted", ["C16"], (SC, "        if target / d3_time_scaleSteps[i - 1] < d3_time_scaleSteps[i] / target:", "        if target / d3_time_scaleSteps[i - 1] > d3_time_scaleSteps[i] / target:"))
M("c16-extent-plus1-dropped", ["C16"], (SC, "                milli2dt(extent[0]), milli2dt(extent[1] + 1), skip\n", "                milli2dt(extent[0]), milli2dt(extent[1] - 1), skip\n"))
M("c16-day-number-from-1", ["C16", "C17"], (DT, "    lambda date: date.day - 1,", "    lambda date: date.day,"))
M("c16-revert-ms-step-fix", ["C16", "C11"], (SC, "        step = int(step)\n", ""))

# ---- C17 / C18 -------------------------------------------------------------
M("c17-revert-day-offset-fix", ["C17", "C16"], (DT, "    return date + timedelta(days=math.floor(offset))", "    nday = date.day + offset\n    ndate = deepcopy(date)\n    ndaysthismonth = daysThisMonth(date)\n    while nday > ndaysthismonth:\n        ndate = d3_time_month_offset(date, 1)\n        nday -= ndaysthismonth\n        ndaysthismonth = daysThisMonth(ndate)\n    return ndate.replace(day=nday)"))
M("c17-round-tie-earlier", ["C17"], (DT, "        if date - d0 < d1 - date:", "        if date - d0 <= d1 - date:"))
M("c17-ceil-no-minus-1ms", ["C17"], (DT, "        ndate = self._local(milli2dt(dt2milli(date) - 1))", "        ndate = self._local(date)"))
M("c17-week-starts-monday", ["C17"], (DT, "    diff = ((date.isoweekday() % 7) + i) % 7", "    diff = (((date.isoweekday() - 1) % 7) + i) % 7"))
M("c17-month-offset-december", ["C17"], (DT, "    while nmonth > 12:", "    while nmonth > 13:"))
M("c18-revert-tz-fix-scale", ["C18"], (SC, "from labella.d3_time import dt2milli\nfrom labella.d3_time import milli2dt\n", "from datetime import datetime\ndt2milli = lambda x: x.timestamp() * 1000.0\nmilli2dt = lambda x: datetime.fromtimestamp(x / 1000.0)\n"))
M("c18-week-local-timestamp", ["C18"], (DT, "    ndate = ndate - timedelta(days=diff)", "    ndate = datetime.fromtimestamp(ndate.timestamp() - diff * 24 * 3600)"))

# ---- C19 / C20 -------------------------------------------------------------
M("c19-accent-swapped", ["C19"], (TX, '        0x0300: "`",\n        0x0301: "\'",', '        0x0300: "\'",\n        0x0301: "`",'))
M("c19-mark-on-next-char", ["C19"], (TX, "            out[-1] = \"\\\\%s{%s}\" % (accents[code], out[-1])\n            continue", "            out.append(\"\\\\%s{}\" % accents[code])\n            continue"))
M("c19-compat-as-accent", ["C19"], (TX, 'if len(parts) == 2 and not parts[0].startswith("<"):', "if len(parts) >= 2:\n            parts = parts[-2:]\n        if len(parts) == 2:"))
M("c19-drops-unknown-marks", ["C19"], (TX, "        out.append(char)\n    return", "        if unicodedata.category(char) != \"Mn\" or code in accents:\n            out.append(char)\n    return"))
M("c20-int2name-div", ["C20"], (UT, "        div = (div - mod) // 26", "        div = div // 26"))
M("c20-lowercase-names", ["C20"], (UT, "        name = chr(65 + mod) + name", "        name = chr(65 + mod + (32 if len(name) >= 2 else 0)) + name"))
M("c20-html-no-upper", ["C20"], (UT, "    return code.upper()", "    return code"))
M("c20-3digit-expansion", ["C20"], (UT, '        code = "".join([code[0], code[0], code[1], code[1], code[2], code[2]])', '        code = "".join([code[0], code[1], code[1], code[1], code[2], code[2]])'))
M("c20-rgb-third-byte", ["C20"], (UT, "        rgb = (hex2dec(code[:2]), hex2dec(code[2:4]), hex2dec(code[4:6]))", "        rgb = (hex2dec(code[:2]), hex2dec(code[2:4]), hex2dec(code[4:]) % 255 if code[4:6] == \"ff\" else hex2dec(code[4:6]))"))

# ---- C04 / C06 ------------------------------------------------------------
M("c04-len-gt-3", ["C04"], (DI, "                len(nodesInCurrentLayer) > 2 and currentLayerWidth > maxWidth", "                len(nodesInCurrentLayer) > 3 and currentLayerWidth > maxWidth"))
M("c04-no-stub-in-layer0", ["C04", "C07"], (DI, "                for j in range(i - 1, -1, -1):\n                    stub = stub.createStub(self.options[\"stubWidth\"])\n                    layers[j].append(stub)\n\n        return layers",
  "                for j in range(i - 1, 0, -1):\n                    stub = stub.createStub(self.options[\"stubWidth\"])\n                    layers[j].append(stub)\n\n        return layers"))
M("c04-stub-width-hardcoded", ["C04"], (DI, "                    stub = stub.createStub(self.options[\"stubWidth\"])\n                    layers[j].append(stub)\n\n        return layers", "                    stub = stub.createStub(1)\n                    layers[j].append(stub)\n\n        return layers"))
M("c04-stub-without-data", ["C04"], (NO, "        stub = Node(self.idealPos, width, self.data)", "        stub = Node(self.idealPos, width)"))
M("c04-need-to-split-ge", ["C04"], (DI, "        return self.estimateRequiredLayers(nodes) > 1", "        return self.estimateRequiredLayers(nodes) >= 1 and len(nodes) > 7"))
M("c04-layers-dropped-last", ["C04"], (FO, "        self.layers = layers\n", "        self.layers = layers[:-1] if len(layers) > 2 else layers\n"))
M("c04-stubwidth-not-counted", ["C04"], (DI, "                currentLayerWidth += self.options[\"stubWidth\"]\n", ""))
M("c04-simple-mod-offbyone", ["C04"], (DI, "            for j in range(mod - 1, -1, -1):", "            for j in range(mod - 1, 0, -1):"))
M("c06-no-remove-stub", ["C06", "C04"], (FO, "        for node in self._nodes:\n            node.removeStub()\n", ""))
M("c06-overlapcount-cached", ["C06"], (DI, "            node.overlaps = [x.data for x in overlaps]\n            node.overlapCount = len(overlaps)", "            node.overlaps = [x.data for x in overlaps]\n            node.overlapCount = max(node.overlapCount, len(overlaps))"))
M("c06-set-options-stale-layerwidth", ["C06", "C04"], (FO, "        else:\n            disOptions[\"layerWidth\"] = None\n", "        else:\n            pass\n"))

# ---- C07 - C11 -------------------------------------------------------------
M("c07-revert-time-of-day-fix", ["C07"], (TL, "            if isinstance(time, datetime.datetime):\n                pass\n            elif isinstance(time, datetime.date):", "            if isinstance(time, datetime.date):"))
M("c07-dots-at-currentpos", ["C07", "C09"], (TL, "            attrib[field] = str(node.getRoot().idealPos)", "            attrib[field] = str(node.getRoot().currentPos)"))
M("c07-link-of-next-node", ["C07", "C09"], (TL, "            attrib[\"d\"] = self.renderer.generatePath(node)", "            attrib[\"d\"] = self.renderer.generatePath(self.nodes[(i + 1) % len(self.nodes)] if len(self.nodes) > 6 else node)"))
M("c07-left-formula", ["C07", "C08"], (TL, "            return (d.x - d.w + d.dx, d.y - d.dy / 2)", "            return (d.x - d.w, d.y - d.dy / 2)"))
M("c07-waypoints-skip-last-hop", ["C07"], (RE, "        hops = node.getPathFromRoot()\n", "        hops = node.getPathFromRoot()\n        if len(hops) > 2:\n            hops = hops[:1] + hops[2:]\n"))
M("c07-ticks-from-niced-copy", ["C07"], (TL, "        scale = self.options[\"scale\"]\n        tick_text = map(scale.tickFormat(), scale.ticks())\n        tick_pos = map(scale, scale.ticks())", "        scale = self.options[\"scale\"]\n        tick_text = map(scale.tickFormat(), scale.copy().nice(5).ticks())\n        tick_pos = map(scale, scale.ticks())"))
M("c07-padding-left-twice", ["C07"], (TL, "                + self.options[\"labelPadding\"][\"left\"]\n                + self.options[\"labelPadding\"][\"right\"]", "                + self.options[\"labelPadding\"][\"left\"]\n                + self.options[\"labelPadding\"][\"left\"]"))
M("c07-range-swapped-leftright", ["C07"], (TL, "            self.options[\"scale\"].range([0, innerHeight])", "            self.options[\"scale\"].range([0, innerWidth])"))
M("c08-layer-offset-drops-nodeheight", ["C08"], (RE, "        gap = options[\"layerGap\"] + options[\"nodeHeight\"]\n\n        if direction == \"left\":", "        gap = options[\"layerGap\"] + options[\"nodeHeight\"] * 0.5\n\n        if direction == \"left\":"))
M("c08-up-uses-plus", ["C08", "C07"], (RE, "                node.y = -pos - options[\"nodeHeight\"]", "                node.y = pos"))
M("c08-thickness-min", ["C08"], (TL, "        if self.direction in [\"left\", \"right\"]:\n            nodeHeight = max((n.w for n in nodes))", "        if self.direction in [\"left\", \"right\"]:\n            nodeHeight = min((n.w for n in nodes))"))
M("c09-tikz-labels-left-y", ["C09", "C08"], (TL, "                \"\\\\begin{scope}[shift={(%i, %i)}]\"\n                % (self.nodePos(node, nodeHeight))", "                \"\\\\begin{scope}[shift={(%i, %i)}]\"\n                % (self.nodePos(node, nodeHeight) if self.direction != \"left\" else (self.nodePos(node, nodeHeight)[0], node.y))"))
M("c09-hex2html-no-3digit", ["C09", "C20"], (UT, "    if len(code) == 3:\n        code = \"\".join", "    if len(code) == 3 and False:\n        code = \"\".join"))
M("c09-list-colour-offset-tikz", ["C09"], (TL, "                % (int2name(i), hex2html(self.linkColor(node.data.data, i)))", "                % (int2name(i), hex2html(self.linkColor(node.data.data, i + 1)))"))
M("c09-tick-round-tikz", ["C09"], (TL, "                txt = \"\\\\begin{scope}[shift={(%i, %i)}]\\n\" % (pos, 0)\n                txt += \"\\\\draw[%s] (0, %s) -- (0, -6pt)\\n\"", "                txt = \"\\\\begin{scope}[shift={(%i, %i)}]\\n\" % (pos + 1.5, 0)\n                txt += \"\\\\draw[%s] (0, %s) -- (0, -6pt)\\n\""))
M("c09-border-colour-from-bg", ["C09"], (TL, "                % (int2name(i), hex2html(self.borderColor(node.data.data, i)))", "                % (int2name(i), hex2html(self.labelBgColor(node.data.data, i)))"))
M("c10-revert-shared-defaults-fix", ["C10"], (TL, "        if not (options and \"scale\" in options):\n            self.options[\"scale\"] = DEFAULT_OPTIONS[\"scale\"].copy()\n        self.options[\"labella\"] = dict(self.options[\"labella\"])\n", ""))
M("c10-class-level-nodes-cache", ["C10"], (TL, "    def get_nodes(self):\n        nodes = []\n", "    _cache = {}\n\n    def get_nodes(self):\n        key = (len(self.items), self.direction)\n        if key in Timeline._cache:\n            return Timeline._cache[key]\n        nodes = Timeline._cache.setdefault(key, [])\n"))
M("c10-latex-defaults-in-place", ["C10"], (TL, "        latex_opts = {k: v for k, v in DEFAULT_OPTIONS[\"latex\"].items()}", "        latex_opts = DEFAULT_OPTIONS[\"latex\"]"))
M("c09-tikz-dot-radius-as-diameter", ["C09"], (TL, "(str(2 * self.options[\"dotRadius\"]), ID)", "(str(self.options[\"dotRadius\"]), ID)"))
M("c11-revert-zero-width-fix", ["C11", "C04"], (DI, "            if node.idealLeft() < node.idealRight():\n                iTree.addi(node.idealLeft(), node.idealRight(), data=node)\n", "            iTree.addi(node.idealLeft(), node.idealRight(), data=node)\n"))
M("c11-revert-options-none-fix", ["C11"], (TL, "        if options is None:\n            options = {}\n", ""))
M("c11-revert-degenerate-fix", ["C11"], (SC, "    b = (b - a) or float(\"inf\")\n    return lambda x: (x - a) / b\n", "    return lambda x: (x - a) / (b - a)\n"))

# ---- behaviour-preserving edits: every check must stay silent ----------------
EQUIVALENT = []


def E(name, props, *edits):
    EQUIVALENT.append({"name": name, "props": props, "edits": [tuple(e) for e in edits]})


E("eq-stub-target-dead-branch", ["C06", "C02"], (RO, "            node.parent.currentPos if node.parent else node.idealPos", "            node.parent.currentPos if node.parent else (node.idealPos if node.layerIndex == 0 else node.currentPos)"))
E("eq-no-explicit-cycle-test", ["C05"], (VP, "                if lb.isActiveDirectedPathBetween(v.right, v.left):", "                if False and lb.isActiveDirectedPathBetween(v.right, v.left):"))
M("c05-stop-tolerance-loosened", ["C05"], (VP, "        while abs(lastcost - cost) > 0.0001:", "        while abs(lastcost - cost) > 0.5:"))
M("c05-split-skips-update-of-block-positions", ["C05"], (VP, "    def split(self, inactive):\n        self.updateBlockPositions()\n", "    def split(self, inactive):\n"))
E("eq-mostviolated-really-pops", ["C05", "C01"], (VP, "            l[deletePoint] = l[n - 1]\n            l = l[:-1]\n", "            l[deletePoint] = l[n - 1]\n            del l[-1]\n"))
E("eq-copy-with-slices", ["C12", "C14"], (SC, "            list(self._domain),\n            list(self._range),", "            self._domain[:],\n            self._range[:],"))
E("eq-removeoverlap-sorted-copy", ["C01", "C02", "C03", "C06"], (RO, "    nodes.sort(key=lambda x: x.targetPos)\n", "    nodes[:] = sorted(nodes, key=lambda x: x.targetPos)\n"))
E("eq-int2name-divmod", ["C20"], (UT, "        mod = (div - 1) % 26\n        name = chr(65 + mod) + name\n        div = (div - mod) // 26", "        div, mod = divmod(div - 1, 26)\n        name = chr(65 + mod) + name"))
E("eq-day-floor-via-replace", ["C17", "C16"], (DT, "    lambda date: datetime(date.year, date.month, date.day),", "    lambda date: date.replace(hour=0, minute=0, second=0, microsecond=0),"))
E("eq-dict-copy-options", ["C10", "C07"], (TL, "        self.options = {k: v for k, v in DEFAULT_OPTIONS.items()}", "        self.options = dict(DEFAULT_OPTIONS)"))

# ---- history-dependent scale state (needs scale-object reuse in the workload) --------------
M("c16-instance-tick-memo-not-invalidated", ["C16", "C07"], (SC, "    def ticks(self, interval=None, skip=None):\n        extent = d3_scaleExtent(self.domain())", "    def ticks(self, interval=None, skip=None):\n        memo = self.__dict__.setdefault(\"_tick_memo\", {})\n        if (interval, skip) in memo:\n            return memo[(interval, skip)]\n        memo[(interval, skip)] = self._ticks(interval, skip)\n        return memo[(interval, skip)]\n\n    def _ticks(self, interval=None, skip=None):\n        extent = d3_scaleExtent(self.domain())"))
M("c13-tickformat-memo-by-count", ["C13"], (SC, "    def tickFormat(self, m=None, fmt=None):\n        return d3_scale_linearTickFormat(self._domain, m, fmt)", "    def tickFormat(self, m=None, fmt=None):\n        memo = self.__dict__.setdefault(\"_fmt_memo\", {})\n        if m not in memo:\n            memo[m] = d3_scale_linearTickFormat(self._domain, m, fmt)\n        return memo[m]"))
E("eq-removeoverlap-imported-by-name", ["C01", "C02", "C03"], (FO, "from . import removeOverlap\n", "from . import removeOverlap\nfrom .removeOverlap import removeOverlap as _solve_layer\n"), (FO, "            removeOverlap.removeOverlap(nodes, simOptions)", "            _solve_layer(nodes, simOptions)"))
M("c06-tie-order-by-str-hash", ["C06"], (DI, "                nodesInCurrentLayer.sort(\n                    key=lambda x: x.overlapCount, reverse=True\n                )", "                nodesInCurrentLayer = list({str(x.idealPos) + \"/\" + str(id(x)): x for x in nodesInCurrentLayer}.values()) if False else sorted(nodesInCurrentLayer, key=lambda x: hash(str(x.idealPos)))\n                nodesInCurrentLayer.sort(\n                    key=lambda x: x.overlapCount, reverse=True\n                )"))
E("eq-range-setter-stores-a-copy", ["C12", "C15"], (SC, "        self._range = x\n        return self.rescale()", "        self._range = list(x)\n        return self.rescale()"))
E("eq-set-options-builds-a-new-dict", ["C06", "C04", "C02"], (FO, "        self.options.update(x)\n", "        self.options = dict(self.options, **x)\n"))
E("eq-range-getter-returns-a-copy", ["C12", "C15", "C07"], (SC, "        if x is None:\n            return self._range\n        self._range = x", "        if x is None:\n            return list(self._range)\n        self._range = x"))
E("eq-calendar-range-via-list-constructor", ["C17", "C16"], (DT, "        return times\n", "        return list(times)\n"))
E("eq-ticks-by-multiplication", ["C13", "C14", "C07"], (SC, "    r = start\n    while r < stop:\n        yield r\n        r += step\n", "    i = 0\n    while start + i * step < stop:\n        yield start + i * step\n        i += 1\n"))
E("eq-tikz-layer-comments-changed", ["C07", "C09", "C11", "C08"], (TL, '        doc.append("% link layer")\n', '        doc.append("% links between dots and labels")\n        doc.append("")\n'), (TL, '        doc.append("% dots")\n', ""), (TL, '        doc.append("% label layer")\n', '        doc.append("% labels")\n'))
M("c04-revert-getlayers-fix", ["C04"], (FO, "        self.layers = layers\n", ""))
