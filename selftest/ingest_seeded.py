#!/venv/bin/python
"""Confirms a property-breaking change produced by an independent sub-agent and files it under
/verif/seeded/<name>/ (patch.diff, demo.py, NOTES.md, meta.json).

    selftest/ingest_seeded.py <property id> <agent worktree> <name> [--checks C01,C05] [--needs "..."]

Confirmation is done in a scratch copy of /repo (never in /repo): demo passes on the clean tree,
the patch applies, the repo's tests pass with it, demo fails with it.  Then the named checks are run
against the patched scratch copy (VERIF_REPO) and the outcome is recorded.
"""
import argparse
import json
import os
import shutil
import subprocess
import sys
import tempfile

VERIF = os.path.dirname(os.path.dirname(os.path.abspath(__file__)))
PY = "/venv/bin/python"
sys.path.insert(0, os.path.join(VERIF, "selftest"))
import run_mutants as RM  # noqa: E402


def sh(cmd, cwd=None, env=None, timeout=900):
    r = subprocess.run(cmd, cwd=cwd, env=env, capture_output=True, text=True, timeout=timeout)
    return r.returncode, (r.stdout + r.stderr)


def main():
    ap = argparse.ArgumentParser()
    ap.add_argument("pid")
    ap.add_argument("worktree")
    ap.add_argument("name")
    ap.add_argument("--checks", default=None)
    ap.add_argument("--needs", default="")
    ap.add_argument("--tier", default="quick")
    a = ap.parse_args()
    wt = a.worktree
    patch = os.path.join(wt, "patch.diff")
    demo = os.path.join(wt, "demo.py")
    if not (os.path.exists(patch) and os.path.exists(demo)):
        # regenerate the patch from the worktree if the agent forgot the file
        rc, out = sh(["git", "-C", wt, "diff", "--", "labella"])
        if out.strip():
            open(patch, "w").write(out)
    assert os.path.exists(patch) and os.path.getsize(patch) > 0, "no patch"
    assert os.path.exists(demo), "no demo"
    d = RM.make_scratch()
    ran = []
    try:
        env = dict(os.environ, PYTHONPATH=d, PYTHONDONTWRITEBYTECODE="1")
        demo_local = os.path.join(d, "demo_seeded.py")
        src = open(demo).read().replace(wt, d)
        open(demo_local, "w").write(src)
        if "import demo" in src:  # demos that re-import themselves in a fresh subprocess
            open(os.path.join(d, "demo.py"), "w").write(src)
        rc0, out0 = sh([PY, demo_local], cwd=d, env=env)
        ran.append("clean tree: demo exit %d" % rc0)
        ok, msg = RM.apply({"patch": patch}, d)
        ran.append("git apply patch.diff: %s" % ("ok" if ok else "FAILED " + msg))
        if not ok:
            print("\n".join(ran))
            return 2
        tests_ok, tail = RM.run_tests(d)
        ran.append("repo tests with the change: %s" % ("109 pass" if tests_ok else "FAIL " + tail[-200:]))
        rc1, out1 = sh([PY, demo_local], cwd=d, env=env)
        ran.append("changed tree: demo exit %d (%s)" % (rc1, out1.strip().splitlines()[-1][:160] if out1.strip() else ""))
        confirmed = rc0 == 0 and tests_ok and rc1 != 0
        print("\n".join(ran))
        print("CONFIRMED" if confirmed else "NOT CONFIRMED")
        checks = (a.checks.split(",") if a.checks else [a.pid])
        results = {}
        if confirmed:
            for pid in checks:
                rc, dt, first = RM.run_check(pid, d, a.tier, 0)
                results[pid] = {"exit": rc, "wall_s": round(dt, 1), "first": first}
                print("check %s on the changed tree: exit %d (%.0fs) %s" % (pid, rc, dt, first[:220]))
            out = os.path.join(VERIF, "seeded", a.name)
            os.makedirs(out, exist_ok=True)
            shutil.copy(patch, os.path.join(out, "patch.diff"))
            open(os.path.join(out, "demo.py"), "w").write(open(demo).read().replace(wt, "/repo"))
            if os.path.exists(os.path.join(wt, "NOTES.md")):
                shutil.copy(os.path.join(wt, "NOTES.md"), os.path.join(out, "NOTES.md"))
            meta = {"property": a.pid, "checks": checks, "needs_to_manifest": a.needs, "source": "independent sub-agent given only the property text and a scratch worktree",
                    "what_was_run": ran, "check_results_at_ingest": results}
            json.dump(meta, open(os.path.join(out, "meta.json"), "w"), indent=1)
        return 0 if confirmed else 1
    finally:
        shutil.rmtree(d, ignore_errors=True)


if __name__ == "__main__":
    sys.exit(main())
