#!/venv/bin/python
"""Regenerates /verif/MANIFEST.json from the table below (run from /verif)."""
import json
import os

HERE = os.path.dirname(os.path.dirname(os.path.abspath(__file__)))

BASELINE = "cd /repo && /venv/bin/python -m pytest -ra -q -p no:cacheprovider --timeout=900 --continue-on-collection-errors"

# id -> (technique, level text, level note, design ref)
CHECKS = {}


def add(pid, technique, text, note, ref):
    CHECKS[pid] = (technique, text, note, ref)


add(
    "C20",
    "online reference-model monitor on hooked functions (enumerated sweep + in-situ exports)",
    "Every call of int2name/hex2rgb/hex2rgbstr/hex2html made by the workload is compared by an online monitor with an "
    "independent reference (bijective base-26 enumeration; hex parsing with doubling). The index range 0..10^6 and all "
    "3-digit codes are enumerated completely in both tiers, all 16^6 six-digit codes (both cases) in the thorough tier; "
    "TikZ exports with up to 800 labels are observed in situ for distinct macro names. Held = on the calls observed.",
    "Trusted: the reference models in oracles/names.py (self-checked against itertools enumeration each run), CPython. "
    "Calls that bypass the module attributes would not be seen; the run is inconclusive if call counters stay below floors.",
    "DESIGN.md section 4, C20",
)

add(
    "C19",
    "online alignment/read-back monitor on the hooked uni2tex (full code-point sweep + random strings + in-situ exports)",
    "Every call of uni2tex made by the workload is judged online: totality, ASCII identity, every accent command aligned with the "
    "accented character it replaces (precomposed or base+mark, nested allowed), read-back canonically equivalent. All 1 112 064 "
    "non-surrogate code points are enumerated in 4 (quick) / 8 (thorough) contexts, plus seeded random strings and the label "
    "texts of real TikZ exports. Held = on the calls observed.",
    "Trusted: Python's unicodedata (same tables the code uses), the 15-accent table copied from the documentation into "
    "oracles/texinv.py. Inputs containing backslash or braces are only judged for totality/ASCII identity.",
    "DESIGN.md section 4, C19",
)
add(
    "C17",
    "online reference-calendar monitor on the hooked interval methods (enumerated day sweep + random + offset/range workloads)",
    "Every floor/ceil/round/offset/range call on the seven calendar units (driver calls and the nested calls the library makes) is "
    "compared online with an independent calendar built on datetime/timedelta/calendar. Every day of 1900-2199 at three instants "
    "is enumerated for floor/ceil/round; every hour of five years; random ms instants incl. round() ties; offsets k=0..400 from "
    "month-end/leap-day boundaries; ranges with steps 1..12. Held = on the calls observed.",
    "Trusted: oracles/calendar.py and CPython's datetime. Process runs with TZ=UTC (zone independence is C18). Week ranges with "
    "step>1 are judged as subsequences only.",
    "DESIGN.md section 4, C17",
)
add(
    "C18",
    "offline comparison of call logs recorded by the real code in fresh processes under five TZ values",
    "A seeded battery of calendar-interval, time-scale and SVG/TikZ export calls is executed by the real code in fresh processes "
    "with TZ in {UTC, America/New_York, Asia/Kolkata, Australia/Lord_Howe, Pacific/Chatham}; one canonical line per API-boundary "
    "call is logged and the five logs must be identical line by line. Instants are concentrated on the DST switch days of the "
    "zones and on quarter-hour offsets. A sentinel proves each zone was in effect. Held = on the calls compared.",
    "Trusted: the OS zoneinfo files and CPython's TZ handling; datetime.time inputs (combined with today's date) are excluded.",
    "DESIGN.md section 4, C18",
)

NOT_YET = {}


def main():
    props = [json.loads(l) for l in open(os.path.join(HERE, "properties.jsonl"))]
    checks = []
    na = []
    for p in props:
        pid = p["id"]
        if pid in CHECKS:
            technique, text, note, ref = CHECKS[pid]
            checks.append(
                {
                    "property_id": pid,
                    "quick_cmd": "./check %s --tier quick" % pid,
                    "thorough_cmd": "./check %s --tier thorough" % pid,
                    "evidence_file": "/verif/evidence/%s.json" % pid,
                    "replay_cmd_template": "./check %s --replay {path}" % pid,
                    "engine": "vmon",
                    "level_claimed": {"category": "exploration", "text": text, "design_ref": ref},
                    "level_note": note,
                    "technique": technique,
                }
            )
        else:
            na.append({"property_id": pid, "reason": NOT_YET.get(pid, "check not built yet in this round (planned: DESIGN.md section 4); no claim is made")})
    m = {
        "version": 1,
        "setup_cmd": "/venv/bin/python -c \"import intervaltree, sys; sys.exit(0)\" && chmod +x /verif/check",
        "hooks": {
            "guard": "GJJVDBURG_LABELLA_PY_VERIF",
            "enable": "./check exports GJJVDBURG_LABELLA_PY_VERIF=1 to its worker processes, which import labella from /repo's working tree (PYTHONPATH) and attach monitors by attribute replacement from /verif/vmon; there is no source hook in /repo and nothing to build",
            "baseline_off_cmd": BASELINE,
            "source_commits": [],
            "add_only": True,
        },
        "engines": [
            {
                "name": "vmon",
                "path": "/verif/vmon",
                "serves_properties": sorted(CHECKS),
                "kind_free_text": "runtime monitoring: passive wrappers on the real functions + independent reference oracles over recorded events; seeded hostile workloads sharded over worker processes",
            }
        ],
        "checks": checks,
        "notes": "All checks: exit 0 held / exit 1 with VIOLATION line / exit 2 INCONCLUSIVE (monitor unreachable, floors unmet, watchdog). VERIF_SEED selects the workload; VERIF_REPO (default /repo) selects the tree under observation. Known findings: /verif/KNOWN_FINDINGS.txt.",
        "not_applicable": na,
    }
    with open(os.path.join(HERE, "MANIFEST.json"), "w") as f:
        json.dump(m, f, indent=1)
        f.write("\n")


if __name__ == "__main__":
    main()
