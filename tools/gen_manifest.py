#!/venv/bin/python
"""Regenerates /verif/MANIFEST.json from the table below (run from /verif)."""
import json
import os

HERE = os.path.dirname(os.path.dirname(os.path.abspath(__file__)))

BASELINE = "cd /repo && /venv/bin/python -m pytest -ra -q -p no:cacheprovider --timeout=900 --continue-on-collection-errors"

# id -> (technique, level text, level note, design ref)
CHECKS = {}


def add(pid, technique, text, note, ref):
    CHECKS[pid] = (technique, text, note, ref)


add(
    "C20",
    "online reference-model monitor on hooked functions (enumerated sweep + in-situ exports)",
    "Every call of int2name/hex2rgb/hex2rgbstr/hex2html made by the workload is compared by an online monitor with an "
    "independent reference (bijective base-26 enumeration; hex parsing with doubling). The index range 0..10^6 and all "
    "3-digit codes are enumerated completely in both tiers, all 16^6 six-digit codes (both cases) in the thorough tier; "
    "TikZ exports with up to 800 labels are observed in situ for distinct macro names. Held = on the calls observed.",
    "Trusted: the reference models in oracles/names.py (self-checked against itertools enumeration each run), CPython. "
    "Calls that bypass the module attributes would not be seen; the run is inconclusive if call counters stay below floors.",
    "DESIGN.md section 4, C20",
)

add(
    "C19",
    "online alignment/read-back monitor on the hooked uni2tex (full code-point sweep + random strings + in-situ exports)",
    "Every call of uni2tex made by the workload is judged online: totality, ASCII identity, every accent command aligned with the "
    "accented character it replaces (precomposed or base+mark, nested allowed), read-back canonically equivalent. All 1 112 064 "
    "non-surrogate code points are enumerated in 4 (quick) / 8 (thorough) contexts, plus seeded random strings and the label "
    "texts of real TikZ exports. Held = on the calls observed.",
    "Trusted: Python's unicodedata (same tables the code uses), the 15-accent table copied from the documentation into "
    "oracles/texinv.py. Inputs containing backslash or braces are only judged for totality/ASCII identity.",
    "DESIGN.md section 4, C19",
)
add(
    "C17",
    "online reference-calendar monitor on the hooked interval methods (enumerated day sweep + random + offset/range workloads)",
    "Every floor/ceil/round/offset/range call on the seven calendar units (driver calls and the nested calls the library makes) is "
    "compared online with an independent calendar built on datetime/timedelta/calendar. Every day of 1900-2199 at three instants "
    "is enumerated for floor/ceil/round; every hour of five years; random ms instants incl. round() ties; offsets k=0..400 from "
    "month-end/leap-day boundaries; ranges with steps 1..12; the calls made under the repository's own tests and under real timeline exports. Held = on the calls observed.",
    "Trusted: oracles/calendar.py and CPython's datetime. Process runs with TZ=UTC (zone independence is C18). Week ranges with "
    "step>1 are judged as subsequences only.",
    "DESIGN.md section 4, C17",
)
add(
    "C18",
    "offline comparison of call logs recorded by the real code in fresh processes under five TZ values",
    "A seeded battery of calendar-interval, time-scale and SVG/TikZ export calls is executed by the real code in fresh processes "
    "with TZ in {UTC, America/New_York, Asia/Kolkata, Australia/Lord_Howe, Pacific/Chatham}; one canonical line per API-boundary "
    "call is logged and the five logs must be identical line by line. Instants are concentrated on the DST switch days of the "
    "zones and on quarter-hour offsets. A sentinel proves each zone was in effect. Held = on the calls compared.",
    "Trusted: the OS zoneinfo files and CPython's TZ handling; datetime.time inputs (combined with today's date) are excluded.",
    "DESIGN.md section 4, C18",
)

add(
    "C12",
    "invariant hooks on every LinearScale mutator (end-point invariant + non-interference over a weak registry of live scales), online affinity monitor on every evaluation, driver-side relational checks",
    "Seeded static cases and 2-10 step histories of domain/range/clamp/nice/copy on a scale and its copies. At every mutator the "
    "monitor re-evaluates every live scale object: it must map the end points of the domain it reports to the range it reports (==) and "
    "no other object's observable signature may change; every evaluation is checked against the exact-rational affine map through the "
    "reported end points; the driver checks monotonicity, invert round trips and clamping. The monitor also runs under the repository's own tests (workload R) and under 150 real timeline exports (in situ). Held = on the histories played.",
    "Trusted: oracle arithmetic (fractions.Fraction), tolerances stated in the evidence. Only the default linear interpolator is exercised.",
    "DESIGN.md section 4, C12",
)
add(
    "C13",
    "reference tick oracle over results observed at the API boundary (call-counted), seeded stratified domains",
    "ticks(m)/tickFormat(m) of the real LinearScale on seeded domains under the statement's guard, including spans placed at the "
    "0.15/0.35/0.75 step thresholds and ends that are exact multiples; judged for 1-2-5 step, multiples, even spacing, in-domain, "
    "completeness, count bounds, distinct texts that read back. Held = on the domains generated.",
    "Trusted: oracles/ticks.py; 1e-5-of-a-step tolerances derived from the guard (stated in DESIGN.md).",
    "DESIGN.md section 4, C13",
)
add(
    "C14",
    "reference nice oracle over domains/ticks observed before and after nice(); H5/H6/H7 monitors in situ; one known finding keyed by mechanism",
    "nice(m) of the real LinearScale and TimeScale on seeded domains (linear: C13 generator; time: ms-resolution 1900-2200, 10 ms..200 y, "
    "calendar edges). Judged: orientation kept, no inward move (beyond 4 ulp of the product k*step), outward move < 2 tick steps, round "
    "ends (tenth of step / calendar alignment class). Held = on the domains generated; the float-division finding is listed in KNOWN_FINDINGS.txt.",
    "Trusted: oracles/ticks.py, oracles/calendar.py. Step is measured from observed ticks; cases with <2 ticks are judged partially (counted).",
    "DESIGN.md section 4, C14",
)
add(
    "C15",
    "online monitor on every TimeScale evaluation (exact timedelta reference) + driver-side relational checks",
    "Seeded pairs of distinct naive datetimes and ranges; every __call__/invert is judged online against exact rational proportionality on the "
    "domain/range the scale reports, and the driver checks end points, proportionality to the given domain, monotonicity, equal durations, "
    "1 ms round trip inside the domain (for ranges conditioned well enough for floats to allow it) and agreement with a LinearScale on oracle-computed epoch milliseconds; plus workload R and in-situ exports. Held = on the cases generated.",
    "Trusted: CPython datetime/timedelta arithmetic, fractions. TZ=UTC (C18 covers zones).",
    "DESIGN.md section 4, C15",
)
add(
    "C16",
    "reference time-tick oracle over lists observed at the API boundary; tick-method path coverage from the H6 hook; H7 calendar monitor in situ",
    "ticks(m) of the real TimeScale on seeded domains covering all 18 rows of the interval table, the millisecond path (incl. 1-11 ms spans) "
    "and the multi-year path, with anchors on month ends, leap days, year ends and Sundays. Judged: totality, strict increase, in-domain, "
    "calendar alignment implied by the smallest gap, gap ratio <= 2, count bounds / one tick per ms. Run is inconclusive unless every path was observed.",
    "Trusted: oracles/ticks.py, oracles/calendar.py. TZ=UTC.",
    "DESIGN.md section 4, C16",
)

add(
    "C05",
    "H3 solver monitor (instance snapshot, operation counts, per-round costs) + exact-rational weak-duality certificate per recorded solve(); logical step budget for termination; known finding keyed by mechanism",
    "Every vpsc.Solver(...).solve() made by the workload - seeded direct instances of 7 graph shapes x 3 weight classes x 2 scale classes, cyclic "
    "variants, the shapes of the repo's fixtures, and every layer problem that real layouts create (in situ) - is recorded by the monitor and "
    "judged: feasibility to 1e-6, returned cost equals the cost of the positions, and an optimality gap <= 1e-3 + 1e-9*cost certified by a dual "
    "lower bound evaluated exactly (multipliers from the solver's own active forest, from the forest reached by continuing the library's own "
    "iteration, or Hildreth dual ascent; upper bounds only from exhibited feasible points). Operations per solve are bounded by 200(n+m)+1e4. "
    "Held = on the instances solved; the degenerate-pivot early stop is a listed known finding.",
    "Trusted: oracles/qpcert.py (weak duality holds for any lambda>=0, so a wrong proposal can only weaken a bound), fractions arithmetic. "
    "Block-structure invariants at satisfy() exit are diagnostics only. Equality constraints are not exercised.",
    "DESIGN.md section 4, C05",
)

add(
    "C01",
    "H1/H2 layout monitors recording every layer solved inside the real Force.compute(); exact-rational separation oracle",
    "Seeded hostile label sets and engine configurations (near-touching chains, exact-fit and misfit packings, ties, half-integers, "
    "non-integer widths, a label wider than the layer, clusters up to 200) are laid out by the real engine; the removeOverlap hook records "
    "chain order, widths, stub flags, monitor-computed targets and final positions of every layer; the oracle checks target order, adjacent "
    "separation (w1+w2)/2+spacing-1 (2-unit spacing between stubs, spacing taken from the ENGINE options) and the chain-implied separation "
    "of every other pair. 20 % of the cases re-use label objects that another engine laid out before; a further shard judges the layers that real timeline exports create (in situ). Held = on the layers observed.",
    "Trusted: oracles/layout.py (fractions). Non-adjacent stub pairs with nodeSpacing<2 are held to what one-constraint-per-adjacent-pair implies (DESIGN.md C01.O.iii).",
    "DESIGN.md section 4, C01",
)
add(
    "C02",
    "H1/H2 layout monitors + exact weighted isotonic regression (PAVA on Fractions) as reference optimum per recorded layer",
    "For every layer recorded inside the real Force.compute() the unique least-squares optimum is recomputed independently (isotonic "
    "regression of target minus cumulative gaps, clipped to the bounds when the layer fits; targets of deeper layers are the final positions "
    "of the item's own stub, computed by the monitor) and every reported position must lie within 0.5+1e-3 of it; the H1 hook also checks "
    "that no layer moves after its own solve. Targets are derived from the layer records (never from the parent pointer the code follows); stale label objects and in-situ export layers are part of the workload. Layers that do not fit between both bounds are out of scope. Held = on the layers observed.",
    "Trusted: oracles/layout.py; the clipping characterisation of box-constrained isotonic regression; 1e-3 covers the 1e10-weight soft walls.",
    "DESIGN.md section 4, C02",
)
add(
    "C03",
    "H1/H2 layout monitors + bounds/spill oracle against the engine's own options",
    "Every recorded layer is judged against the ENGINE's minPos/maxPos (so a bound that is not handed to the layer solver is caught): if the "
    "layer fits (or only one bound exists) every item edge lies within 0.5+1e-3 of the bounds; otherwise the full C01 separation holds and "
    "the extent exceeds the available width. Workload includes exact-fit, barely-unfit (1e-6, 0.5, 1), gross misfit, one-sided, negative and "
    "fractional bounds and deeper stub layers. Held = on the layers observed.",
    "Trusted: oracles/layout.py. Layers within 1e-9 of exact fit are judged as fitting.",
    "DESIGN.md section 4, C03",
)
add(
    "C04",
    "H4/H1 monitors (Distributor.distribute input/output by identity; Force.compute then getLayers()) + structural layering oracle",
    "Every layering produced by the real distributor - driven directly with hostile options and in situ through Force.compute() - is checked "
    "structurally and exactly: each input label in exactly one layer, contiguous layers, a complete parent/child stub chain per label with the "
    "label's position, payload and the configured stub width, no foreign items, the engine reporting exactly this layering (getLayers, "
    "layerIndex), single layer when there is no layer width or the labels fit the density budget, and the per-layer capacity bound of the "
    "default algorithm. 30 % of the engine cases re-configure an engine built with other options; layerings of real timeline exports are judged in situ. Held = on the layerings observed.",
    "Trusted: oracles/layering.py. Requirements within 1e-9 (relative) of the budget accept either outcome (the code sums widths in floats).",
    "DESIGN.md section 4, C04",
)
add(
    "C06",
    "history workload on one engine under the H1 monitor; reference model = history-free run (fresh engine, fresh sorted nodes)",
    "Seeded 2-8 step histories (set labels / compute / re-compute / set_options / second label set / label objects previously laid out by "
    "another engine / permuted input) are played on one real Force engine; after every compute the (position,width)->(layer,position) map "
    "must equal that of a fresh engine with the accumulated options on fresh nodes; a further shard computes the same batch of layouts in fresh processes that differ only in PYTHONHASHSEED and compares them line by line. Held = on the histories played.",
    "Trusted: the history-free run of the same code as reference (the property is history-independence). Proviso of the statement enforced by the generator.",
    "DESIGN.md section 4, C06",
)

add(
    "C07",
    "export-boundary monitor (H10) + in-situ layout monitor (H1: stub positions, layers) + independent SVG/TikZ parsers; geometry oracle over the caller's original data",
    "Seeded timeline specs are exported by both real back-ends from fresh deep copies; each document is parsed into a common Picture and judged "
    "against the caller's ORIGINAL data: counts, box signatures (size incl. padding, verbatim text), dots = one increasing affine map of the "
    "time as supplied (exact rational reference from the domain the scale reports, which must cover the data / equal an explicit domain), "
    "axis line and main shift, tick texts consistent with the value at their position, each link starting at its datum's dot, continuous, "
    "passing through the positions the H1 hook recorded for that datum's stubs layer by layer, strictly outward, ending on the middle of the "
    "axis-facing edge of its own box. Held = on the documents exported.",
    "Trusted: oracles/picture.py parsers (unparseable => inconclusive, never a pass), oracles/export.py, texinv read-back for TikZ texts. "
    "Explicit widths only (no LaTeX); TikZ judged as text. In left/right either padding-pair assignment/orientation is accepted.",
    "DESIGN.md section 4, C07",
)
add(
    "C08",
    "export-boundary monitor + parsers; rectangle-geometry oracle (pairwise disjointness, side/distance, layer stacking with layers from the H1 hook)",
    "Dense seeded specs (clusters, ties, half-integer widths, absent lower bound) with label spacing >= 3 and layer gap >= 1 are exported by both "
    "back-ends; the parsed rectangles must be pairwise disjoint, lie on the side of direction at distance >= layerGap-1 and farther layers must "
    "lie wholly beyond nearer ones. No tolerance beyond the statement. Held = on the documents exported.",
    "Trusted: parsers, oracles/export.judge_c08. Explicit widths only.",
    "DESIGN.md section 4, C08",
)
add(
    "C09",
    "differential monitoring of the two real emitters on deep-copied identical specs; per-datum identification of boxes/links, field-by-field Picture comparison",
    "For every seeded spec (all colour option forms, border on/off, all directions, both scale kinds) the SVG and the TikZ export are parsed and "
    "compared: axis (+-1), box origins/sizes (exact strings), link curves (exact strings), dots (1e-6) and their colours, ticks (<1, equal texts), "
    "per-datum fill/border/text/link colours as RGB triples (TikZ through the macro each element names), label texts. Held = on the pairs exported.",
    "Trusted: parsers and oracles/export.judge_c09. Margins excluded as the statement says.",
    "DESIGN.md section 4, C09",
)
add(
    "C10",
    "multi-instance history workload in fresh processes; offline byte comparison with single-instance fresh-process references; H10 option-state digests for non-interference",
    "Seeded interleavings of construct/export over 2-4 timelines (SVG/TikZ mixed, most relying on the default scale and default engine options) "
    "run in a fresh process each; every exported document must be byte-identical to the document a fresh process exports for that spec alone, "
    "repeated exports identical, and around every operation the monitor digests the option state (scale domain/range, nested dicts, items) "
    "of every OTHER live timeline, which must not change. Histories also share the very data dict objects or one options dict between "
    "timelines, contain value-equal twins (also with numbers in the other numeric type), timelines built without options, failing "
    "constructions and exports to files that fail late. Held = on the histories played.",
    "Trusted: process isolation of the reference runs, the digest in vmon/mon_export.py. datetime.time inputs excluded.",
    "DESIGN.md section 4, C10",
)
add(
    "C11",
    "totality workload at the export boundary (H10 outcome recording) + H3 step budget + parsers; known finding keyed by exception mechanism",
    "A deterministic ladder of documented-input strata (single datum, same time, options omitted/empty/partial, spans 1 ms..300 y incl. 7-9 ms, "
    "windows over every month end, leap days, year ends, all directions/algorithms, 100-1000 labels in clusters <= 200) plus the general "
    "generator is constructed and exported by both back-ends; any exception, unparseable document or misplaced dot of a degenerate domain is a "
    "violation. The recursion-limit finding for clusters > ~240 is listed and its pinned witness replayed every run. Held = on the inputs tried.",
    "Trusted: parsers. Explicit widths only. Known finding classifier: RecursionError whose innermost repo frames are vpsc traversals and a layer with > 200 variables.",
    "DESIGN.md section 4, C11",
)

NOT_YET = {}


def main():
    props = [json.loads(l) for l in open(os.path.join(HERE, "properties.jsonl"))]
    checks = []
    na = []
    for p in props:
        pid = p["id"]
        if pid in CHECKS:
            technique, text, note, ref = CHECKS[pid]
            checks.append(
                {
                    "property_id": pid,
                    "quick_cmd": "./check %s --tier quick" % pid,
                    "thorough_cmd": "./check %s --tier thorough" % pid,
                    "evidence_file": "/verif/evidence/%s.json" % pid,
                    "replay_cmd_template": "./check %s --replay {path}" % pid,
                    "engine": "vmon",
                    "level_claimed": {"category": "exploration", "text": text, "design_ref": ref},
                    "level_note": note,
                    "technique": technique,
                }
            )
        else:
            na.append({"property_id": pid, "reason": NOT_YET.get(pid, "check not built yet in this round (planned: DESIGN.md section 4); no claim is made")})
    m = {
        "version": 1,
        "setup_cmd": "/venv/bin/python -c \"import intervaltree, sys; sys.exit(0)\" && chmod +x /verif/check",
        "hooks": {
            "guard": "GJJVDBURG_LABELLA_PY_VERIF",
            "enable": "./check exports GJJVDBURG_LABELLA_PY_VERIF=1 to its worker processes, which import labella from /repo's working tree (PYTHONPATH) and attach monitors by attribute replacement from /verif/vmon; there is no source hook in /repo and nothing to build",
            "baseline_off_cmd": BASELINE,
            "source_commits": [],
            "add_only": True,
        },
        "engines": [
            {
                "name": "vmon",
                "path": "/verif/vmon",
                "serves_properties": sorted(CHECKS),
                "kind_free_text": "runtime monitoring: passive wrappers on the real functions + independent reference oracles over recorded events; seeded hostile workloads sharded over worker processes",
            }
        ],
        "checks": checks,
        "notes": "All checks: exit 0 held / exit 1 with VIOLATION line / exit 2 INCONCLUSIVE (monitor unreachable, floors unmet, watchdog). VERIF_SEED selects the workload; VERIF_REPO (default /repo) selects the tree under observation. Known findings: /verif/KNOWN_FINDINGS.txt.",
        "not_applicable": na,
    }
    with open(os.path.join(HERE, "MANIFEST.json"), "w") as f:
        json.dump(m, f, indent=1)
        f.write("\n")


if __name__ == "__main__":
    main()
