#!/venv/bin/python
"""Regenerates /verif/MANIFEST.json from the table below (run from /verif)."""
import json
import os

HERE = os.path.dirname(os.path.dirname(os.path.abspath(__file__)))

BASELINE = "cd /repo && /venv/bin/python -m pytest -ra -q -p no:cacheprovider --timeout=900 --continue-on-collection-errors"

# id -> (technique, level text, level note, design ref)
CHECKS = {}


def add(pid, technique, text, note, ref):
    CHECKS[pid] = (technique, text, note, ref)


add(
    "C20",
    "online reference-model monitor on hooked functions (enumerated sweep + in-situ exports)",
    "Every call of int2name/hex2rgb/hex2rgbstr/hex2html made by the workload is compared by an online monitor with an "
    "independent reference (bijective base-26 enumeration; hex parsing with doubling). The index range 0..10^6 and all "
    "3-digit codes are enumerated completely in both tiers, all 16^6 six-digit codes (both cases) in the thorough tier; "
    "TikZ exports with up to 800 labels are observed in situ for distinct macro names. Held = on the calls observed.",
    "Trusted: the reference models in oracles/names.py (self-checked against itertools enumeration each run), CPython. "
    "Calls that bypass the module attributes would not be seen; the run is inconclusive if call counters stay below floors.",
    "DESIGN.md section 4, C20",
)

NOT_YET = {}


def main():
    props = [json.loads(l) for l in open(os.path.join(HERE, "properties.jsonl"))]
    checks = []
    na = []
    for p in props:
        pid = p["id"]
        if pid in CHECKS:
            technique, text, note, ref = CHECKS[pid]
            checks.append(
                {
                    "property_id": pid,
                    "quick_cmd": "./check %s --tier quick" % pid,
                    "thorough_cmd": "./check %s --tier thorough" % pid,
                    "evidence_file": "/verif/evidence/%s.json" % pid,
                    "replay_cmd_template": "./check %s --replay {path}" % pid,
                    "engine": "vmon",
                    "level_claimed": {"category": "exploration", "text": text, "design_ref": ref},
                    "level_note": note,
                    "technique": technique,
                }
            )
        else:
            na.append({"property_id": pid, "reason": NOT_YET.get(pid, "check not built yet in this round (planned: DESIGN.md section 4); no claim is made")})
    m = {
        "version": 1,
        "setup_cmd": "/venv/bin/python -c \"import intervaltree, sys; sys.exit(0)\" && chmod +x /verif/check",
        "hooks": {
            "guard": "GJJVDBURG_LABELLA_PY_VERIF",
            "enable": "./check exports GJJVDBURG_LABELLA_PY_VERIF=1 to its worker processes, which import labella from /repo's working tree (PYTHONPATH) and attach monitors by attribute replacement from /verif/vmon; there is no source hook in /repo and nothing to build",
            "baseline_off_cmd": BASELINE,
            "source_commits": [],
            "add_only": True,
        },
        "engines": [
            {
                "name": "vmon",
                "path": "/verif/vmon",
                "serves_properties": sorted(CHECKS),
                "kind_free_text": "runtime monitoring: passive wrappers on the real functions + independent reference oracles over recorded events; seeded hostile workloads sharded over worker processes",
            }
        ],
        "checks": checks,
        "notes": "All checks: exit 0 held / exit 1 with VIOLATION line / exit 2 INCONCLUSIVE (monitor unreachable, floors unmet, watchdog). VERIF_SEED selects the workload; VERIF_REPO (default /repo) selects the tree under observation. Known findings: /verif/KNOWN_FINDINGS.txt.",
        "not_applicable": na,
    }
    with open(os.path.join(HERE, "MANIFEST.json"), "w") as f:
        json.dump(m, f, indent=1)
        f.write("\n")


if __name__ == "__main__":
    main()
