#!/venv/bin/python
"""Lists, from the current evidence files, every floor (stratum / event / path) of every check with
its observed count, sorted by margin - to see which floors could fail on another seed."""
import importlib, json, os, sys
HERE = os.path.dirname(os.path.dirname(os.path.abspath(__file__)))
sys.path.insert(0, HERE)
rows = []
for i in range(1, 21):
    pid = "C%02d" % i
    p = os.path.join(HERE, "evidence", pid + ".json")
    if not os.path.exists(p):
        continue
    ev = json.load(open(p))
    cov = ev["coverage"]
    mod = importlib.import_module("props." + pid.lower())
    fl = mod.floors(ev["tier"])
    for s in fl.get("strata", []):
        rows.append((cov["strata"].get(s, {}).get("judged", 0), pid, "stratum", s, 1))
    for k, n in fl.get("events", {}).items():
        got = cov["monitor_events"].get(k, 0)
        rows.append((got / float(n), pid, "event", k, n))
    for k in fl.get("paths", []):
        rows.append((cov["paths"].get(k, 0), pid, "path", k, 1))
    rows.append((cov["evaluations"] / float(fl.get("evaluations", 1)), pid, "evaluations", "", fl.get("evaluations", 1)))
    rows.append((cov["distinct_nontrivial"] / float(fl.get("distinct_nontrivial", 2)), pid, "distinct", "", fl.get("distinct_nontrivial", 2)))
rows.sort()
for r in (rows if "--all" in sys.argv else rows[:40]):
    print("%8.1f  %s %-11s %-40s floor=%s" % r)
