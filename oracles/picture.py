"""Parsers for the two export formats into a common Picture (C07-C11).
Independent of labella.  A parser that cannot account for every element of the
main layer raises Unparseable (the caller reports inconclusive, never a pass)."""

import re
from xml.etree import ElementTree


class Unparseable(Exception):
    pass


class Picture(object):
    def __init__(self, kind):
        self.kind = kind
        self.size = None  # (width, height) of the document (SVG only)
        self.margin_shift = None
        self.main_shift = None  # (x, y)
        self.axis = None  # {"orient": "h"|"v", "length": float, "raw": str}
        self.ticks = []  # {"pos": float, "raw": str, "text": str, "orient": "h"|"v"}
        self.links = []  # {"start": (x,y), "segments": [{"type": "C"|"L", "points": [(x,y)...], "raw": [str...]}], "colour": rgb}
        self.boxes = []  # {"origin": (int,int), "raw_origin": (str,str), "w": float, "h": float, "raw_size": (str,str), "fill": rgb, "border": rgb|None, "text": str|None, "text_colour": rgb|None}
        self.dots = []  # {"pos": float, "raw": str, "orient": "h"|"v", "colour": rgb, "size": str}
        self.has_axis_layer = False
        self.macro_names = {}
        self.defects = []  # content-level defects of the document (e.g. a macro defined twice: TeX keeps the later one)


_RGB = re.compile(r"rgb\(\s*(\d+)\s*,\s*(\d+)\s*,\s*(\d+)\s*\)")
_TRANSLATE = re.compile(r"^translate\(\s*([-+0-9.eE]+)\s*,\s*([-+0-9.eE]+)\s*\)$")


def _rgb(s):
    m = _RGB.search(s or "")
    if not m:
        raise Unparseable("no rgb() in %r" % s)
    return tuple(int(g) for g in m.groups())


def _translate(s):
    m = _TRANSLATE.match(s or "")
    if not m:
        raise Unparseable("bad transform %r" % s)
    return m.group(1), m.group(2)


def _style(s):
    out = {}
    for part in (s or "").split(";"):
        if ":" in part:
            k, v = part.split(":", 1)
            out[k.strip()] = v.strip()
    return out


def parse_path(d):
    toks = d.split()
    i = 0
    start = None
    cur = None
    segs = []
    try:
        while i < len(toks):
            t = toks[i]
            if t == "M":
                cur = (float(toks[i + 1]), float(toks[i + 2]))
                if start is None:
                    start = cur
                    start_raw = (toks[i + 1], toks[i + 2])
                i += 3
            elif t == "C":
                raw = toks[i + 1 : i + 7]
                pts = [(float(raw[0]), float(raw[1])), (float(raw[2]), float(raw[3])), (float(raw[4]), float(raw[5]))]
                segs.append({"type": "C", "from": cur, "points": pts, "raw": list(raw)})
                cur = pts[2]
                i += 7
            elif t == "L":
                raw = toks[i + 1 : i + 3]
                p = (float(raw[0]), float(raw[1]))
                segs.append({"type": "L", "from": cur, "points": [p], "raw": list(raw)})
                cur = p
                i += 3
            else:
                raise Unparseable("unknown path command %r" % t)
    except (IndexError, ValueError) as e:
        raise Unparseable("bad path %r: %s" % (d[:80], e))
    if start is None:
        raise Unparseable("path without M")
    return start, start_raw, segs


def parse_svg(doc):
    if isinstance(doc, bytes):
        doc = doc.decode("utf-8")
    try:
        root = ElementTree.fromstring(doc)
    except ElementTree.ParseError as e:
        raise Unparseable("not well-formed XML: %s" % e)
    if root.tag != "svg":
        raise Unparseable("root is %r" % root.tag)
    P = Picture("svg")
    P.size = (root.get("width"), root.get("height"))
    outer = [c for c in root if c.tag == "g"]
    if len(outer) != 1 or len(list(root)) != 1:
        raise Unparseable("svg root children")
    P.margin_shift = tuple(float(v) for v in _translate(outer[0].get("transform")))
    mains = [c for c in outer[0] if c.get("class") == "main-layer"]
    others = [c for c in outer[0] if c.get("class") not in ("main-layer", "dummy-layer")]
    if len(mains) != 1 or others:
        raise Unparseable("main-layer not unique / unknown siblings")
    main = mains[0]
    P.main_shift = tuple(float(v) for v in _translate(main.get("transform")))
    seen = set()
    for child in main:
        cls = child.get("class")
        if child.tag != "g":
            raise Unparseable("main-layer child %r" % child.tag)
        if cls is None:
            lines = list(child)
            if len(lines) != 1 or lines[0].tag != "line" or lines[0].get("class") != "timeline":
                raise Unparseable("anonymous group is not the timeline")
            ln = lines[0]
            if ln.get("x2") is not None and ln.get("y2") is None:
                P.axis = {"orient": "h", "length": float(ln.get("x2")), "raw": ln.get("x2")}
            elif ln.get("y2") is not None and ln.get("x2") is None:
                P.axis = {"orient": "v", "length": float(ln.get("y2")), "raw": ln.get("y2")}
            else:
                raise Unparseable("timeline line has unexpected end point")
            if any(ln.get(k) not in (None, "0") for k in ("x1", "y1")):
                raise Unparseable("timeline does not start at the origin")
            key = "timeline"
        elif cls == "axis-layer":
            P.has_axis_layer = True
            for g in child:
                if g.tag != "g" or g.get("class") != "tick":
                    raise Unparseable("axis-layer child")
                tx, ty = _translate(g.get("transform"))
                texts = [e for e in g if e.tag == "text"]
                lines = [e for e in g if e.tag == "line"]
                if len(texts) != 1 or len(lines) != 1 or len(list(g)) != 2:
                    raise Unparseable("tick group content")
                if float(ty) == 0 and (float(tx) != 0 or lines[0].get("x2") == "0"):
                    orient, pos, raw = "h", float(tx), tx
                else:
                    orient, pos, raw = "v", float(ty), ty
                    if float(tx) != 0:
                        raise Unparseable("tick translated in both directions")
                P.ticks.append({"pos": pos, "raw": raw, "text": texts[0].text or "", "orient": orient,
                                "mark": (lines[0].get("x2"), lines[0].get("y2"))})
            key = cls
        elif cls == "link-layer":
            for e in child:
                if e.tag != "path" or e.get("class") != "link":
                    raise Unparseable("link-layer child")
                start, start_raw, segs = parse_path(e.get("d"))
                P.links.append({"start": start, "start_raw": start_raw, "segments": segs, "colour": _rgb(_style(e.get("style")).get("stroke"))})
            key = cls
        elif cls == "label-layer":
            for g in child:
                if g.tag != "g" or g.get("class") != "label-g":
                    raise Unparseable("label-layer child")
                tx, ty = _translate(g.get("transform"))
                rects = [e for e in g if e.tag == "rect"]
                texts = [e for e in g if e.tag == "text"]
                if len(rects) != 1 or len(texts) > 1 or len(list(g)) != len(rects) + len(texts):
                    raise Unparseable("label group content")
                st = _style(rects[0].get("style"))
                box = {"origin": (float(tx), float(ty)), "raw_origin": (tx, ty), "w": float(rects[0].get("width")), "h": float(rects[0].get("height")),
                       "raw_size": (rects[0].get("width"), rects[0].get("height")), "fill": _rgb(st.get("fill")),
                       "border": _rgb(st["stroke"]) if "stroke" in st else None, "text": None, "text_colour": None}
                if texts:
                    box["text"] = texts[0].text or ""
                    box["text_colour"] = _rgb(_style(texts[0].get("style")).get("fill"))
                P.boxes.append(box)
            key = cls
        elif cls == "dot-layer":
            for e in child:
                if e.tag != "circle" or e.get("class") != "dot":
                    raise Unparseable("dot-layer child")
                cx, cy = e.get("cx"), e.get("cy")
                if cx is None and cy is None:
                    raise Unparseable("dot with neither cx nor cy")
                if cx is not None and cy is not None:
                    # a fully specified centre: along/across by the axis orientation (an absent attribute is 0 in SVG)
                    if P.axis is None or P.axis["orient"] is None:
                        raise Unparseable("dot with cx and cy before the axis is known")
                    raw, other = (cx, cy) if P.axis["orient"] == "h" else (cy, cx)
                    orient = P.axis["orient"]
                else:
                    raw, other = (cx, "0") if cx is not None else (cy, "0")
                    orient = "h" if cx is not None else "v"
                P.dots.append({"pos": float(raw), "raw": raw, "orient": orient, "across": float(other),
                               "colour": _rgb(_style(e.get("style")).get("fill")), "size": e.get("r")})
            key = cls
        else:
            raise Unparseable("unknown layer class %r" % cls)
        if key in seen:
            raise Unparseable("layer %r twice" % key)
        seen.add(key)
    for need in ("timeline", "link-layer", "label-layer", "dot-layer"):
        if need not in seen:
            raise Unparseable("missing %s" % need)
    return P


# ---------------------------------------------------------------------------
# TikZ

_NUM = r"[-+]?[0-9]*\.?[0-9]+(?:[eE][-+]?[0-9]+)?"
_SHIFT = re.compile(r"^\\begin\{scope\}\[shift=\{\(\s*(%s)\s*,\s*(%s)\s*\)\}\]$" % (_NUM, _NUM))
_DEFCOLOR = re.compile(r"^\\definecolor\{(dotColor|labelBgColor|labelTextColor|linkColor|borderColor)([A-Za-z]*)\}\{HTML\}\{([^{}]*)\}$")
_HEX6 = re.compile(r"^[0-9A-Fa-f]{6}$")


def _html_colour(v):
    """xcolor's HTML model takes exactly six hex digits; anything else is not a colour (content, not syntax)."""
    return _hex(v) if _HEX6.match(v) else ("not-an-HTML-colour", v)
_DEFTEXT = re.compile(r"^\\def\\text([A-Za-z]*)\{(.*)\}$", re.S)
_AXIS = re.compile(r"^\\draw\[[^\]]*\] \(0, 0\) -- \((%s), (%s)\);$" % (_NUM, _NUM))
_CURVE = re.compile(r"^\\draw\[color=linkColor([A-Za-z]*), [^\]]*\] \((%s), (%s)\) \.\. controls\n\((%s), (%s)\) and \((%s), (%s)\) \.\. \((%s), (%s)\);$" % ((_NUM,) * 8))
_LINE = re.compile(r"^\\draw\[color=linkColor([A-Za-z]*), [^\]]*\] \((%s), (%s)\) -- \((%s), (%s)\);$" % ((_NUM,) * 4))
_BOX_FILL = re.compile(r"^\\fill\[color=labelBgColor([A-Za-z]*), rounded corners=2pt\]\n\(0, 0\) rectangle \((%s), (%s)\) node\[[^\]]*text=labelTextColor([A-Za-z]*)\] \{\\strut (.*)\};$" % (_NUM, _NUM), re.S)
_BOX_DRAW = re.compile(r"^\\draw\[[^\],]*, borderColor([A-Za-z]*), fill=labelBgColor([A-Za-z]*), rounded corners=2pt\]\n\(0, 0\) rectangle \((%s), (%s)\) node\[[^\]]*text=labelTextColor([A-Za-z]*)\] \{\\strut (.*)\};$" % (_NUM, _NUM), re.S)
_DOT = re.compile(r"^\\draw node \[circle, inner sep=0pt, minimum size=([^,]*)bp, ?\nfill=dotColor([A-Za-z]*)\] at \((%s), (%s)\) \{\};$" % (_NUM, _NUM))
_TICK = re.compile(r"^\\begin\{scope\}\[shift=\{\(\s*(%s)\s*,\s*(%s)\s*\)\}\]\n\\draw\[[^\]]*\] \(([^,]*), ([^)]*)\) -- \(([^,]*), ([^)]*)\)\nnode\[anchor=(\w+)\] \{(.*)\};$" % (_NUM, _NUM), re.S)


def _hex(s):
    return tuple(int(s[k : k + 2], 16) for k in (0, 2, 4))


def parse_tikz_strict(doc):
    """First, line-exact parser (relies on the emitter's comment lines and blank lines).  Kept as a cross-check
    for the structure-based parse_tikz below (selftest/test_oracles.py compares the two)."""
    if isinstance(doc, bytes):
        doc = doc.decode("utf-8")
    P = Picture("tikz")
    colours = {}
    texts = {}
    # The emitter joins entries with "\n"; several entries contain newlines themselves.  Work on
    # a cursor over physical lines and glue the multi-line statements we know.
    lines = doc.split("\n")
    n = len(lines)
    i = 0
    # preamble: colour and text macro definitions until \begin{document}
    while i < n and lines[i] != "\\begin{document}":
        ln = lines[i]
        m = _DEFCOLOR.match(ln)
        if m:
            key = (m.group(1), m.group(2))
            if key in colours:
                P.defects.append("colour macro %s%s defined twice" % key)
            colours[key] = _html_colour(m.group(3))
        elif ln.startswith("\\def\\text"):
            # label text may contain newlines: glue until braces balance
            buf = ln
            while buf.count("{") != buf.count("}") and i + 1 < n and lines[i + 1] != "\\begin{document}":
                i += 1
                buf += "\n" + lines[i]
            m = _DEFTEXT.match(buf)
            if not m:
                raise Unparseable("bad text macro %r" % buf[:60])
            if m.group(1) in texts:
                P.defects.append("text macro %s defined twice" % m.group(1))
            texts[m.group(1)] = m.group(2)
        i += 1
    if i >= n:
        raise Unparseable("no \\begin{document}")
    P.macro_names = {"colours": sorted(k[0] + k[1] for k in colours), "texts": sorted(texts)}
    body = lines[i + 1 :]
    # expected skeleton
    def expect(idx, s):
        if idx >= len(body) or body[idx] != s:
            raise Unparseable("expected %r at body line %d, found %r" % (s, idx, body[idx] if idx < len(body) else None))
        return idx + 1

    j = 0
    if not body[j].startswith("\\begin{tikzpicture}"):
        raise Unparseable("no tikzpicture")
    if "x=1bp" not in body[j] or "y=-1bp" not in body[j]:
        raise Unparseable("unexpected tikzpicture units %r" % body[j])
    j += 1
    j = expect(j, "")
    j = expect(j, "% shift for the margin")
    m = _SHIFT.match(body[j])
    if not m:
        raise Unparseable("margin scope")
    P.margin_shift = (float(m.group(1)), float(m.group(2)))
    j += 1
    j = expect(j, "% main layer")
    m = _SHIFT.match(body[j])
    if not m:
        raise Unparseable("main scope")
    P.main_shift = (float(m.group(1)), float(m.group(2)))
    j += 1
    j = expect(j, "% axis")
    j = expect(j, "\\begin{scope}")
    m = _AXIS.match(body[j])
    if not m:
        raise Unparseable("axis line %r" % body[j])
    x2, y2 = m.group(1), m.group(2)
    if y2 == "0" and x2 != "0":
        P.axis = {"orient": "h", "length": float(x2), "raw": x2}
    elif x2 == "0" and y2 != "0":
        P.axis = {"orient": "v", "length": float(y2), "raw": y2}
    elif x2 == "0" and y2 == "0":
        P.axis = {"orient": None, "length": 0.0, "raw": "0"}
    else:
        raise Unparseable("axis not along a coordinate axis: (%s, %s)" % (x2, y2))
    j += 1
    j = expect(j, "\\end{scope}")
    j = expect(j, "")
    if j < len(body) and body[j] == "% axis layer":
        P.has_axis_layer = True
        j += 1
        j = expect(j, "\\begin{scope}")
        while body[j] != "\\end{scope}":
            buf = body[j]
            # tick = 3 physical lines (shift / draw / node) then \end{scope}; tick text could contain newlines
            k = j + 1
            while k < len(body) and not (body[k] == "\\end{scope}" and _TICK.match(buf)):
                buf += "\n" + body[k]
                k += 1
                if k - j > 12:
                    raise Unparseable("tick statement too long")
            m = _TICK.match(buf)
            if not m:
                raise Unparseable("tick %r" % buf[:80])
            sx, sy = m.group(1), m.group(2)
            anchor = m.group(7)
            if anchor in ("north", "south"):
                orient, raw, other = "h", sx, sy
            elif anchor in ("east", "west"):
                orient, raw, other = "v", sy, sx
            else:
                raise Unparseable("tick anchor %r" % anchor)
            if float(other) != 0:
                raise Unparseable("tick shifted off the axis")
            P.ticks.append({"pos": float(raw), "raw": raw, "text": m.group(8), "orient": orient, "mark": (m.group(3), m.group(4), m.group(5), m.group(6))})
            j = k + 1
        j += 1
        j = expect(j, "")
    j = expect(j, "% link layer")
    j = expect(j, "\\begin{scope}")
    while body[j] != "\\end{scope}":
        # one doc entry per link: its \draw statements joined by "\n"; statements end with ";"
        name = None
        segs = []
        start = None
        if body[j] == "":
            raise Unparseable("empty link entry")
        while body[j] != "\\end{scope}":
            ln = body[j]
            if ".. controls" in ln:
                buf = ln + "\n" + body[j + 1]
                m = _CURVE.match(buf)
                if not m:
                    raise Unparseable("curve %r" % buf[:100])
                g = m.groups()
                nm = g[0]
                raw = list(g[1:])
                frm = (float(raw[0]), float(raw[1]))
                pts = [(float(raw[2]), float(raw[3])), (float(raw[4]), float(raw[5])), (float(raw[6]), float(raw[7]))]
                seg = {"type": "C", "from": frm, "from_raw": raw[0:2], "points": pts, "raw": raw[2:8]}
                j += 2
            else:
                m = _LINE.match(ln)
                if not m:
                    raise Unparseable("link statement %r" % ln[:100])
                g = m.groups()
                nm = g[0]
                raw = list(g[1:])
                frm = (float(raw[0]), float(raw[1]))
                seg = {"type": "L", "from": frm, "from_raw": raw[0:2], "points": [(float(raw[2]), float(raw[3]))], "raw": raw[2:4]}
                j += 1
            if name is None:
                name = nm
                start = frm
                start_raw = tuple(seg["from_raw"])
            elif nm != name:
                # next link begins
                j -= 2 if seg["type"] == "C" else 1
                break
            segs.append(seg)
        if ("linkColor", name) not in colours:
            raise Unparseable("link colour macro %r undefined" % name)
        P.links.append({"start": start, "start_raw": start_raw, "segments": segs, "colour": colours[("linkColor", name)], "name": name})
    j += 1
    j = expect(j, "")
    j = expect(j, "% label layer")
    j = expect(j, "\\begin{scope}")
    while body[j] != "\\end{scope}":
        m = _SHIFT.match(body[j])
        if not m:
            raise Unparseable("label scope %r" % body[j][:60])
        ox, oy = m.group(1), m.group(2)
        j += 1
        buf = body[j]
        k = j + 1
        while k < len(body) and not (body[k] == "\\end{scope}" and (_BOX_FILL.match(buf) or _BOX_DRAW.match(buf))):
            buf += "\n" + body[k]
            k += 1
            if k - j > 8:
                raise Unparseable("label statement too long")
        mf, md = _BOX_FILL.match(buf), _BOX_DRAW.match(buf)
        if mf:
            bg, w, h, tc, txt = mf.groups()
            border = None
            names = {bg, tc}
        elif md:
            bc, bg, w, h, tc, txt = md.groups()
            names = {bc, bg, tc}
            if ("borderColor", bc) not in colours:
                raise Unparseable("border colour macro undefined")
            border = colours[("borderColor", bc)]
        else:
            raise Unparseable("label statement %r" % buf[:100])
        if len(names) != 1:
            raise Unparseable("label uses macros of different labels: %r" % sorted(names))
        nm = bg
        if ("labelBgColor", nm) not in colours or ("labelTextColor", nm) not in colours:
            raise Unparseable("label colour macro undefined")
        text = None
        if txt != "":
            if txt != "\\text" + nm:
                raise Unparseable("label text %r is not its own macro" % txt)
            # a label that uses a text macro the document never defines shows no such text: content, not syntax
            text = texts.get(nm, "<undefined macro \\text%s>" % nm)
        P.boxes.append({"origin": (float(ox), float(oy)), "raw_origin": (ox, oy), "w": float(w), "h": float(h), "raw_size": (w, h),
                        "fill": colours[("labelBgColor", nm)], "border": border, "text": text,
                        "text_colour": colours[("labelTextColor", nm)] if text is not None else None, "name": nm})
        j = k + 1
    j += 1
    j = expect(j, "")
    j = expect(j, "% dots")
    j = expect(j, "\\begin{scope}")
    while body[j] != "\\end{scope}":
        buf = body[j] + "\n" + body[j + 1]
        m = _DOT.match(buf)
        if not m:
            raise Unparseable("dot %r" % buf[:100])
        size, nm, x, y = m.groups()
        if ("dotColor", nm) not in colours:
            raise Unparseable("dot colour macro undefined")
        # "(pos, 0)" for horizontal axes, "(0, pos)" for vertical ones
        if y == "0" and x != "0":
            orient, raw = "h", x
        elif x == "0" and y != "0":
            orient, raw = "v", y
        elif x == "0" and y == "0":
            orient, raw = "?", "0"
        else:
            raise Unparseable("dot off the axis line: (%s, %s)" % (x, y))
        # %f prints 0 as 0.000000, the fixed 0 as "0": distinguishes the two forms
        P.dots.append({"pos": float(raw), "raw": raw, "orient": orient, "colour": colours[("dotColor", nm)], "size": size, "name": nm})
        j += 2
    j += 1
    j = expect(j, "")
    j = expect(j, "\\end{scope}")
    j = expect(j, "\\end{scope}")
    j = expect(j, "\\end{tikzpicture}")
    j = expect(j, "\\end{document}")
    for d in P.dots:
        if d["orient"] == "?":
            d["orient"] = P.axis["orient"]
    return P


# ---------------------------------------------------------------------------
# Structure-based TikZ parser: layers are recognised by what they contain, not by the comment lines or
# the blank lines between them, so cosmetic changes of the emitter do not make the document unparseable.


class _Scope(object):
    def __init__(self, header):
        self.header = header
        self.lines = []
        self.children = []

    def text(self):
        return "\n".join(self.lines)


def _statements(text):
    """Split scope content into statements ending with ';' at brace depth 0."""
    out, cur, depth = [], [], 0
    for ch in text:
        cur.append(ch)
        if ch == "{":
            depth += 1
        elif ch == "}":
            depth -= 1
        elif ch == ";" and depth == 0:
            out.append("".join(cur).strip())
            cur = []
    rest = "".join(cur).strip()
    if rest:
        raise Unparseable("dangling text in scope: %r" % rest[:60])
    return out


_LINK_NAME = re.compile(r"^\\draw\[color=linkColor([A-Za-z]*),")


def parse_tikz(doc):
    if isinstance(doc, bytes):
        doc = doc.decode("utf-8")
    P = Picture("tikz")
    colours, texts = {}, {}
    lines = doc.split("\n")
    n = len(lines)
    i = 0
    while i < n and lines[i].strip() != "\\begin{document}":
        ln = lines[i]
        m = _DEFCOLOR.match(ln)
        if m:
            key = (m.group(1), m.group(2))
            if key in colours:
                P.defects.append("colour macro %s%s defined twice" % key)
            colours[key] = _html_colour(m.group(3))
        elif ln.startswith("\\def\\text"):
            buf = ln
            while buf.count("{") != buf.count("}") and i + 1 < n and lines[i + 1].strip() != "\\begin{document}":
                i += 1
                buf += "\n" + lines[i]
            m = _DEFTEXT.match(buf)
            if not m:
                raise Unparseable("bad text macro %r" % buf[:60])
            if m.group(1) in texts:
                P.defects.append("text macro %s defined twice" % m.group(1))
            texts[m.group(1)] = m.group(2)
        i += 1
    if i >= n:
        raise Unparseable("no \\begin{document}")
    P.macro_names = {"colours": sorted(k[0] + k[1] for k in colours), "texts": sorted(texts)}
    # scope tree of the picture
    root = None
    stack = []
    seen_picture = False
    for ln in lines[i + 1:]:
        s = ln.strip()
        if not seen_picture:
            if s.startswith("\\begin{tikzpicture}"):
                if "x=1bp" not in s or "y=-1bp" not in s:
                    raise Unparseable("unexpected tikzpicture units %r" % s)
                seen_picture = True
                root = _Scope(s)
                stack = [root]
            elif s and not s.startswith("%"):
                raise Unparseable("text before the picture: %r" % s[:60])
            continue
        if s.startswith("\\end{tikzpicture}"):
            if len(stack) != 1:
                raise Unparseable("unbalanced scopes")
            stack = []
            break
        if not stack:
            break
        if s.startswith("%") and not stack[-1].lines:
            continue  # comment line between statements
        if s == "" and not (stack[-1].lines and not stack[-1].lines[-1].rstrip().endswith(";")):
            continue  # blank line between statements
        if s.startswith("\\begin{scope}"):
            sc = _Scope(s)
            stack[-1].children.append(sc)
            stack.append(sc)
        elif s == "\\end{scope}":
            if len(stack) < 2:
                raise Unparseable("\\end{scope} without begin")
            stack.pop()
        else:
            stack[-1].lines.append(ln)
    if root is None or stack:
        raise Unparseable("picture not closed")
    if root.lines or len(root.children) != 1:
        raise Unparseable("picture must hold exactly the margin scope")
    margin = root.children[0]
    m = _SHIFT.match(margin.header)
    if not m or margin.lines or len(margin.children) < 1:
        raise Unparseable("margin scope")
    P.margin_shift = (float(m.group(1)), float(m.group(2)))
    main = margin.children[0]
    m = _SHIFT.match(main.header)
    if not m or main.lines:
        raise Unparseable("main scope")
    P.main_shift = (float(m.group(1)), float(m.group(2)))
    seen = set()
    # layers that stand beside the main layer instead of inside it do not get its shift: the elements are read all the same
    # (so that counts and colours can be judged) and the document is marked defective unless that shift is zero
    stray = [sc for sc in margin.children[1:]]
    if stray and P.main_shift != (0.0, 0.0):
        P.defects.append("%d layer(s) drawn outside the main layer scope: they miss its shift %r" % (len(stray), P.main_shift))
    for layer in list(main.children) + stray:
        if layer.header != "\\begin{scope}":
            raise Unparseable("layer scope with options: %r" % layer.header[:60])
        stmts = _statements(layer.text())
        kind = None
        if not layer.children and len(stmts) == 1 and _AXIS.match(stmts[0]):
            kind = "axis"
            x2, y2 = _AXIS.match(stmts[0]).groups()
            if y2 == "0" and x2 != "0":
                P.axis = {"orient": "h", "length": float(x2), "raw": x2}
            elif x2 == "0" and y2 != "0":
                P.axis = {"orient": "v", "length": float(y2), "raw": y2}
            elif x2 == "0" and y2 == "0":
                P.axis = {"orient": None, "length": 0.0, "raw": "0"}
            else:
                raise Unparseable("axis not along a coordinate axis: (%s, %s)" % (x2, y2))
        elif not layer.children and stmts and all(_LINK_NAME.match(st) for st in stmts):
            kind = "links"
            cur = None
            for st in stmts:
                nm = _LINK_NAME.match(st).group(1)
                mc, ml = _CURVE.match(st), _LINE.match(st)
                if mc:
                    g = mc.groups()
                    raw = list(g[1:])
                    seg = {"type": "C", "from": (float(raw[0]), float(raw[1])), "from_raw": raw[0:2],
                           "points": [(float(raw[2]), float(raw[3])), (float(raw[4]), float(raw[5])), (float(raw[6]), float(raw[7]))], "raw": raw[2:8]}
                elif ml:
                    g = ml.groups()
                    raw = list(g[1:])
                    seg = {"type": "L", "from": (float(raw[0]), float(raw[1])), "from_raw": raw[0:2], "points": [(float(raw[2]), float(raw[3]))], "raw": raw[2:4]}
                else:
                    raise Unparseable("link statement %r" % st[:100])
                if cur is None or cur["name"] != nm:
                    if ("linkColor", nm) not in colours:
                        raise Unparseable("link colour macro %r undefined" % nm)
                    cur = {"start": seg["from"], "start_raw": tuple(seg["from_raw"]), "segments": [], "colour": colours[("linkColor", nm)], "name": nm}
                    P.links.append(cur)
                cur["segments"].append(seg)
        elif not layer.children and stmts and all(_DOT.match(st) for st in stmts):
            kind = "dots"
            for st in stmts:
                size, nm, x, y = _DOT.match(st).groups()
                if ("dotColor", nm) not in colours:
                    raise Unparseable("dot colour macro undefined")
                if y == "0" and x != "0":
                    orient, raw, across = "h", x, 0.0
                elif x == "0" and y != "0":
                    orient, raw, across = "v", y, 0.0
                elif x == "0" and y == "0":
                    orient, raw, across = "?", "0", 0.0
                else:
                    # both coordinates printed in full: along/across by the axis orientation
                    orient, raw, across = "both", (x, y), None
                P.dots.append({"pos": None if orient == "both" else float(raw), "raw": raw, "orient": orient, "across": across,
                               "colour": colours[("dotColor", nm)], "size": size, "name": nm})
        elif layer.children and not stmts:
            # ticks or labels: decided by the content of the sub-scopes
            first = _statements(layer.children[0].text())
            if len(first) == 1 and (_BOX_FILL.match(first[0]) or _BOX_DRAW.match(first[0])):
                kind = "labels"
                for sc in layer.children:
                    m = _SHIFT.match(sc.header)
                    st = _statements(sc.text())
                    if not m or sc.children or len(st) != 1:
                        raise Unparseable("label scope %r" % sc.header[:60])
                    ox, oy = m.group(1), m.group(2)
                    mf, md = _BOX_FILL.match(st[0]), _BOX_DRAW.match(st[0])
                    if mf:
                        bg, w, h, tc, txt = mf.groups()
                        border = None
                        names = {bg, tc}
                    elif md:
                        bc, bg, w, h, tc, txt = md.groups()
                        names = {bc, bg, tc}
                        if ("borderColor", bc) not in colours:
                            raise Unparseable("border colour macro undefined")
                        border = colours[("borderColor", bc)]
                    else:
                        raise Unparseable("label statement %r" % st[0][:100])
                    if len(names) != 1:
                        raise Unparseable("label uses macros of different labels: %r" % sorted(names))
                    nm = bg
                    if ("labelBgColor", nm) not in colours or ("labelTextColor", nm) not in colours:
                        raise Unparseable("label colour macro undefined")
                    text = None
                    if txt != "":
                        if txt != "\\text" + nm:
                            raise Unparseable("label text %r is not its own macro" % txt)
                        # a label that uses a text macro the document never defines shows no such text: content, not syntax
                        text = texts.get(nm, "<undefined macro \\text%s>" % nm)
                    P.boxes.append({"origin": (float(ox), float(oy)), "raw_origin": (ox, oy), "w": float(w), "h": float(h), "raw_size": (w, h),
                                    "fill": colours[("labelBgColor", nm)], "border": border, "text": text,
                                    "text_colour": colours[("labelTextColor", nm)] if text is not None else None, "name": nm})
            else:
                kind = "ticks"
                P.has_axis_layer = True
                for sc in layer.children:
                    buf = sc.header + "\n" + sc.text()
                    m = _TICK.match(buf)
                    if not m or sc.children:
                        raise Unparseable("tick %r" % buf[:80])
                    sx, sy = m.group(1), m.group(2)
                    anchor = m.group(7)
                    if anchor in ("north", "south"):
                        orient, raw, other = "h", sx, sy
                    elif anchor in ("east", "west"):
                        orient, raw, other = "v", sy, sx
                    else:
                        raise Unparseable("tick anchor %r" % anchor)
                    if float(other) != 0:
                        raise Unparseable("tick shifted off the axis")
                    P.ticks.append({"pos": float(raw), "raw": raw, "text": m.group(8), "orient": orient, "mark": (m.group(3), m.group(4), m.group(5), m.group(6))})
        elif not layer.children and not stmts:
            kind = "ticks"  # an axis layer without any tick
            P.has_axis_layer = True
        else:
            raise Unparseable("unrecognised layer: %r" % (stmts[0][:80] if stmts else layer.children[0].header[:60]))
        if kind in seen:
            raise Unparseable("layer %r twice" % kind)
        seen.add(kind)
    for need in ("axis", "links", "labels", "dots"):
        if need not in seen:
            raise Unparseable("missing %s layer" % need)
    for d in P.dots:
        if d["orient"] == "?":
            d["orient"] = P.axis["orient"]
        elif d["orient"] == "both":
            if P.axis["orient"] is None:
                raise Unparseable("dot with two coordinates and an axis of unknown orientation")
            x, y = d["raw"]
            along, across = (x, y) if P.axis["orient"] == "h" else (y, x)
            d["orient"], d["pos"], d["raw"], d["across"] = P.axis["orient"], float(along), along, float(across)
    return P
