"""Parsers for the two export formats into a common Picture (C07-C11).
Independent of labella.  A parser that cannot account for every element of the
main layer raises Unparseable (the caller reports inconclusive, never a pass)."""

import re
from xml.etree import ElementTree


class Unparseable(Exception):
    pass


class Picture(object):
    def __init__(self, kind):
        self.kind = kind
        self.size = None  # (width, height) of the document (SVG only)
        self.margin_shift = None
        self.main_shift = None  # (x, y)
        self.axis = None  # {"orient": "h"|"v", "length": float, "raw": str}
        self.ticks = []  # {"pos": float, "raw": str, "text": str, "orient": "h"|"v"}
        self.links = []  # {"start": (x,y), "segments": [{"type": "C"|"L", "points": [(x,y)...], "raw": [str...]}], "colour": rgb}
        self.boxes = []  # {"origin": (int,int), "raw_origin": (str,str), "w": float, "h": float, "raw_size": (str,str), "fill": rgb, "border": rgb|None, "text": str|None, "text_colour": rgb|None}
        self.dots = []  # {"pos": float, "raw": str, "orient": "h"|"v", "colour": rgb, "size": str}
        self.has_axis_layer = False
        self.macro_names = {}


_RGB = re.compile(r"rgb\(\s*(\d+)\s*,\s*(\d+)\s*,\s*(\d+)\s*\)")
_TRANSLATE = re.compile(r"^translate\(\s*([-+0-9.eE]+)\s*,\s*([-+0-9.eE]+)\s*\)$")


def _rgb(s):
    m = _RGB.search(s or "")
    if not m:
        raise Unparseable("no rgb() in %r" % s)
    return tuple(int(g) for g in m.groups())


def _translate(s):
    m = _TRANSLATE.match(s or "")
    if not m:
        raise Unparseable("bad transform %r" % s)
    return m.group(1), m.group(2)


def _style(s):
    out = {}
    for part in (s or "").split(";"):
        if ":" in part:
            k, v = part.split(":", 1)
            out[k.strip()] = v.strip()
    return out


def parse_path(d):
    toks = d.split()
    i = 0
    start = None
    cur = None
    segs = []
    try:
        while i < len(toks):
            t = toks[i]
            if t == "M":
                cur = (float(toks[i + 1]), float(toks[i + 2]))
                if start is None:
                    start = cur
                    start_raw = (toks[i + 1], toks[i + 2])
                i += 3
            elif t == "C":
                raw = toks[i + 1 : i + 7]
                pts = [(float(raw[0]), float(raw[1])), (float(raw[2]), float(raw[3])), (float(raw[4]), float(raw[5]))]
                segs.append({"type": "C", "from": cur, "points": pts, "raw": list(raw)})
                cur = pts[2]
                i += 7
            elif t == "L":
                raw = toks[i + 1 : i + 3]
                p = (float(raw[0]), float(raw[1]))
                segs.append({"type": "L", "from": cur, "points": [p], "raw": list(raw)})
                cur = p
                i += 3
            else:
                raise Unparseable("unknown path command %r" % t)
    except (IndexError, ValueError) as e:
        raise Unparseable("bad path %r: %s" % (d[:80], e))
    if start is None:
        raise Unparseable("path without M")
    return start, start_raw, segs


def parse_svg(doc):
    if isinstance(doc, bytes):
        doc = doc.decode("utf-8")
    try:
        root = ElementTree.fromstring(doc)
    except ElementTree.ParseError as e:
        raise Unparseable("not well-formed XML: %s" % e)
    if root.tag != "svg":
        raise Unparseable("root is %r" % root.tag)
    P = Picture("svg")
    P.size = (root.get("width"), root.get("height"))
    outer = [c for c in root if c.tag == "g"]
    if len(outer) != 1 or len(list(root)) != 1:
        raise Unparseable("svg root children")
    P.margin_shift = tuple(float(v) for v in _translate(outer[0].get("transform")))
    mains = [c for c in outer[0] if c.get("class") == "main-layer"]
    others = [c for c in outer[0] if c.get("class") not in ("main-layer", "dummy-layer")]
    if len(mains) != 1 or others:
        raise Unparseable("main-layer not unique / unknown siblings")
    main = mains[0]
    P.main_shift = tuple(float(v) for v in _translate(main.get("transform")))
    seen = set()
    for child in main:
        cls = child.get("class")
        if child.tag != "g":
            raise Unparseable("main-layer child %r" % child.tag)
        if cls is None:
            lines = list(child)
            if len(lines) != 1 or lines[0].tag != "line" or lines[0].get("class") != "timeline":
                raise Unparseable("anonymous group is not the timeline")
            ln = lines[0]
            if ln.get("x2") is not None and ln.get("y2") is None:
                P.axis = {"orient": "h", "length": float(ln.get("x2")), "raw": ln.get("x2")}
            elif ln.get("y2") is not None and ln.get("x2") is None:
                P.axis = {"orient": "v", "length": float(ln.get("y2")), "raw": ln.get("y2")}
            else:
                raise Unparseable("timeline line has unexpected end point")
            if any(ln.get(k) not in (None, "0") for k in ("x1", "y1")):
                raise Unparseable("timeline does not start at the origin")
            key = "timeline"
        elif cls == "axis-layer":
            P.has_axis_layer = True
            for g in child:
                if g.tag != "g" or g.get("class") != "tick":
                    raise Unparseable("axis-layer child")
                tx, ty = _translate(g.get("transform"))
                texts = [e for e in g if e.tag == "text"]
                lines = [e for e in g if e.tag == "line"]
                if len(texts) != 1 or len(lines) != 1 or len(list(g)) != 2:
                    raise Unparseable("tick group content")
                if float(ty) == 0 and (float(tx) != 0 or lines[0].get("x2") == "0"):
                    orient, pos, raw = "h", float(tx), tx
                else:
                    orient, pos, raw = "v", float(ty), ty
                    if float(tx) != 0:
                        raise Unparseable("tick translated in both directions")
                P.ticks.append({"pos": pos, "raw": raw, "text": texts[0].text or "", "orient": orient,
                                "mark": (lines[0].get("x2"), lines[0].get("y2"))})
            key = cls
        elif cls == "link-layer":
            for e in child:
                if e.tag != "path" or e.get("class") != "link":
                    raise Unparseable("link-layer child")
                start, start_raw, segs = parse_path(e.get("d"))
                P.links.append({"start": start, "start_raw": start_raw, "segments": segs, "colour": _rgb(_style(e.get("style")).get("stroke"))})
            key = cls
        elif cls == "label-layer":
            for g in child:
                if g.tag != "g" or g.get("class") != "label-g":
                    raise Unparseable("label-layer child")
                tx, ty = _translate(g.get("transform"))
                rects = [e for e in g if e.tag == "rect"]
                texts = [e for e in g if e.tag == "text"]
                if len(rects) != 1 or len(texts) > 1 or len(list(g)) != len(rects) + len(texts):
                    raise Unparseable("label group content")
                st = _style(rects[0].get("style"))
                box = {"origin": (float(tx), float(ty)), "raw_origin": (tx, ty), "w": float(rects[0].get("width")), "h": float(rects[0].get("height")),
                       "raw_size": (rects[0].get("width"), rects[0].get("height")), "fill": _rgb(st.get("fill")),
                       "border": _rgb(st["stroke"]) if "stroke" in st else None, "text": None, "text_colour": None}
                if texts:
                    box["text"] = texts[0].text or ""
                    box["text_colour"] = _rgb(_style(texts[0].get("style")).get("fill"))
                P.boxes.append(box)
            key = cls
        elif cls == "dot-layer":
            for e in child:
                if e.tag != "circle" or e.get("class") != "dot":
                    raise Unparseable("dot-layer child")
                cx, cy = e.get("cx"), e.get("cy")
                if cx is None and cy is None:
                    raise Unparseable("dot with neither cx nor cy")
                if cx is not None and cy is not None:
                    # a fully specified centre: along/across by the axis orientation (an absent attribute is 0 in SVG)
                    if P.axis is None or P.axis["orient"] is None:
                        raise Unparseable("dot with cx and cy before the axis is known")
                    raw, other = (cx, cy) if P.axis["orient"] == "h" else (cy, cx)
                    orient = P.axis["orient"]
                else:
                    raw, other = (cx, "0") if cx is not None else (cy, "0")
                    orient = "h" if cx is not None else "v"
                P.dots.append({"pos": float(raw), "raw": raw, "orient": orient, "across": float(other),
                               "colour": _rgb(_style(e.get("style")).get("fill")), "size": e.get("r")})
            key = cls
        else:
            raise Unparseable("unknown layer class %r" % cls)
        if key in seen:
            raise Unparseable("layer %r twice" % key)
        seen.add(key)
    for need in ("timeline", "link-layer", "label-layer", "dot-layer"):
        if need not in seen:
            raise Unparseable("missing %s" % need)
    return P


# ---------------------------------------------------------------------------
# TikZ

_NUM = r"[-+]?[0-9]*\.?[0-9]+(?:[eE][-+]?[0-9]+)?"
_SHIFT = re.compile(r"^\\begin\{scope\}\[shift=\{\(\s*(%s)\s*,\s*(%s)\s*\)\}\]$" % (_NUM, _NUM))
_DEFCOLOR = re.compile(r"^\\definecolor\{(dotColor|labelBgColor|labelTextColor|linkColor|borderColor)([A-Za-z]*)\}\{HTML\}\{([0-9A-Fa-f]{6})\}$")
_DEFTEXT = re.compile(r"^\\def\\text([A-Za-z]*)\{(.*)\}$", re.S)
_AXIS = re.compile(r"^\\draw\[[^\]]*\] \(0, 0\) -- \((%s), (%s)\);$" % (_NUM, _NUM))
_CURVE = re.compile(r"^\\draw\[color=linkColor([A-Za-z]*), [^\]]*\] \((%s), (%s)\) \.\. controls\n\((%s), (%s)\) and \((%s), (%s)\) \.\. \((%s), (%s)\);$" % ((_NUM,) * 8))
_LINE = re.compile(r"^\\draw\[color=linkColor([A-Za-z]*), [^\]]*\] \((%s), (%s)\) -- \((%s), (%s)\);$" % ((_NUM,) * 4))
_BOX_FILL = re.compile(r"^\\fill\[color=labelBgColor([A-Za-z]*), rounded corners=2pt\]\n\(0, 0\) rectangle \((%s), (%s)\) node\[[^\]]*text=labelTextColor([A-Za-z]*)\] \{\\strut (.*)\};$" % (_NUM, _NUM), re.S)
_BOX_DRAW = re.compile(r"^\\draw\[[^\],]*, borderColor([A-Za-z]*), fill=labelBgColor([A-Za-z]*), rounded corners=2pt\]\n\(0, 0\) rectangle \((%s), (%s)\) node\[[^\]]*text=labelTextColor([A-Za-z]*)\] \{\\strut (.*)\};$" % (_NUM, _NUM), re.S)
_DOT = re.compile(r"^\\draw node \[circle, inner sep=0pt, minimum size=([^,]*)bp, \nfill=dotColor([A-Za-z]*)\] at \((%s), (%s)\) \{\};$" % (_NUM, _NUM))
_TICK = re.compile(r"^\\begin\{scope\}\[shift=\{\(\s*(%s)\s*,\s*(%s)\s*\)\}\]\n\\draw\[[^\]]*\] \(([^,]*), ([^)]*)\) -- \(([^,]*), ([^)]*)\)\nnode\[anchor=(\w+)\] \{(.*)\};$" % (_NUM, _NUM), re.S)


def _hex(s):
    return tuple(int(s[k : k + 2], 16) for k in (0, 2, 4))


def parse_tikz(doc):
    if isinstance(doc, bytes):
        doc = doc.decode("utf-8")
    P = Picture("tikz")
    colours = {}
    texts = {}
    # The emitter joins entries with "\n"; several entries contain newlines themselves.  Work on
    # a cursor over physical lines and glue the multi-line statements we know.
    lines = doc.split("\n")
    n = len(lines)
    i = 0
    # preamble: colour and text macro definitions until \begin{document}
    while i < n and lines[i] != "\\begin{document}":
        ln = lines[i]
        m = _DEFCOLOR.match(ln)
        if m:
            key = (m.group(1), m.group(2))
            if key in colours:
                raise Unparseable("colour macro %s%s defined twice" % key)
            colours[key] = _hex(m.group(3))
        elif ln.startswith("\\def\\text"):
            # label text may contain newlines: glue until braces balance
            buf = ln
            while buf.count("{") != buf.count("}") and i + 1 < n and lines[i + 1] != "\\begin{document}":
                i += 1
                buf += "\n" + lines[i]
            m = _DEFTEXT.match(buf)
            if not m:
                raise Unparseable("bad text macro %r" % buf[:60])
            if m.group(1) in texts:
                raise Unparseable("text macro %s defined twice" % m.group(1))
            texts[m.group(1)] = m.group(2)
        i += 1
    if i >= n:
        raise Unparseable("no \\begin{document}")
    P.macro_names = {"colours": sorted(k[0] + k[1] for k in colours), "texts": sorted(texts)}
    body = lines[i + 1 :]
    # expected skeleton
    def expect(idx, s):
        if idx >= len(body) or body[idx] != s:
            raise Unparseable("expected %r at body line %d, found %r" % (s, idx, body[idx] if idx < len(body) else None))
        return idx + 1

    j = 0
    if not body[j].startswith("\\begin{tikzpicture}"):
        raise Unparseable("no tikzpicture")
    if "x=1bp" not in body[j] or "y=-1bp" not in body[j]:
        raise Unparseable("unexpected tikzpicture units %r" % body[j])
    j += 1
    j = expect(j, "")
    j = expect(j, "% shift for the margin")
    m = _SHIFT.match(body[j])
    if not m:
        raise Unparseable("margin scope")
    P.margin_shift = (float(m.group(1)), float(m.group(2)))
    j += 1
    j = expect(j, "% main layer")
    m = _SHIFT.match(body[j])
    if not m:
        raise Unparseable("main scope")
    P.main_shift = (float(m.group(1)), float(m.group(2)))
    j += 1
    j = expect(j, "% axis")
    j = expect(j, "\\begin{scope}")
    m = _AXIS.match(body[j])
    if not m:
        raise Unparseable("axis line %r" % body[j])
    x2, y2 = m.group(1), m.group(2)
    if y2 == "0" and x2 != "0":
        P.axis = {"orient": "h", "length": float(x2), "raw": x2}
    elif x2 == "0" and y2 != "0":
        P.axis = {"orient": "v", "length": float(y2), "raw": y2}
    elif x2 == "0" and y2 == "0":
        P.axis = {"orient": None, "length": 0.0, "raw": "0"}
    else:
        raise Unparseable("axis not along a coordinate axis: (%s, %s)" % (x2, y2))
    j += 1
    j = expect(j, "\\end{scope}")
    j = expect(j, "")
    if j < len(body) and body[j] == "% axis layer":
        P.has_axis_layer = True
        j += 1
        j = expect(j, "\\begin{scope}")
        while body[j] != "\\end{scope}":
            buf = body[j]
            # tick = 3 physical lines (shift / draw / node) then \end{scope}; tick text could contain newlines
            k = j + 1
            while k < len(body) and not (body[k] == "\\end{scope}" and _TICK.match(buf)):
                buf += "\n" + body[k]
                k += 1
                if k - j > 12:
                    raise Unparseable("tick statement too long")
            m = _TICK.match(buf)
            if not m:
                raise Unparseable("tick %r" % buf[:80])
            sx, sy = m.group(1), m.group(2)
            anchor = m.group(7)
            if anchor in ("north", "south"):
                orient, raw, other = "h", sx, sy
            elif anchor in ("east", "west"):
                orient, raw, other = "v", sy, sx
            else:
                raise Unparseable("tick anchor %r" % anchor)
            if float(other) != 0:
                raise Unparseable("tick shifted off the axis")
            P.ticks.append({"pos": float(raw), "raw": raw, "text": m.group(8), "orient": orient, "mark": (m.group(3), m.group(4), m.group(5), m.group(6))})
            j = k + 1
        j += 1
        j = expect(j, "")
    j = expect(j, "% link layer")
    j = expect(j, "\\begin{scope}")
    while body[j] != "\\end{scope}":
        # one doc entry per link: its \draw statements joined by "\n"; statements end with ";"
        name = None
        segs = []
        start = None
        if body[j] == "":
            raise Unparseable("empty link entry")
        while body[j] != "\\end{scope}":
            ln = body[j]
            if ".. controls" in ln:
                buf = ln + "\n" + body[j + 1]
                m = _CURVE.match(buf)
                if not m:
                    raise Unparseable("curve %r" % buf[:100])
                g = m.groups()
                nm = g[0]
                raw = list(g[1:])
                frm = (float(raw[0]), float(raw[1]))
                pts = [(float(raw[2]), float(raw[3])), (float(raw[4]), float(raw[5])), (float(raw[6]), float(raw[7]))]
                seg = {"type": "C", "from": frm, "from_raw": raw[0:2], "points": pts, "raw": raw[2:8]}
                j += 2
            else:
                m = _LINE.match(ln)
                if not m:
                    raise Unparseable("link statement %r" % ln[:100])
                g = m.groups()
                nm = g[0]
                raw = list(g[1:])
                frm = (float(raw[0]), float(raw[1]))
                seg = {"type": "L", "from": frm, "from_raw": raw[0:2], "points": [(float(raw[2]), float(raw[3]))], "raw": raw[2:4]}
                j += 1
            if name is None:
                name = nm
                start = frm
                start_raw = tuple(seg["from_raw"])
            elif nm != name:
                # next link begins
                j -= 2 if seg["type"] == "C" else 1
                break
            segs.append(seg)
        if ("linkColor", name) not in colours:
            raise Unparseable("link colour macro %r undefined" % name)
        P.links.append({"start": start, "start_raw": start_raw, "segments": segs, "colour": colours[("linkColor", name)], "name": name})
    j += 1
    j = expect(j, "")
    j = expect(j, "% label layer")
    j = expect(j, "\\begin{scope}")
    while body[j] != "\\end{scope}":
        m = _SHIFT.match(body[j])
        if not m:
            raise Unparseable("label scope %r" % body[j][:60])
        ox, oy = m.group(1), m.group(2)
        j += 1
        buf = body[j]
        k = j + 1
        while k < len(body) and not (body[k] == "\\end{scope}" and (_BOX_FILL.match(buf) or _BOX_DRAW.match(buf))):
            buf += "\n" + body[k]
            k += 1
            if k - j > 8:
                raise Unparseable("label statement too long")
        mf, md = _BOX_FILL.match(buf), _BOX_DRAW.match(buf)
        if mf:
            bg, w, h, tc, txt = mf.groups()
            border = None
            names = {bg, tc}
        elif md:
            bc, bg, w, h, tc, txt = md.groups()
            names = {bc, bg, tc}
            if ("borderColor", bc) not in colours:
                raise Unparseable("border colour macro undefined")
            border = colours[("borderColor", bc)]
        else:
            raise Unparseable("label statement %r" % buf[:100])
        if len(names) != 1:
            raise Unparseable("label uses macros of different labels: %r" % sorted(names))
        nm = bg
        if ("labelBgColor", nm) not in colours or ("labelTextColor", nm) not in colours:
            raise Unparseable("label colour macro undefined")
        text = None
        if txt != "":
            if txt != "\\text" + nm:
                raise Unparseable("label text %r is not its own macro" % txt)
            if nm not in texts:
                raise Unparseable("text macro %s undefined" % nm)
            text = texts[nm]
        P.boxes.append({"origin": (float(ox), float(oy)), "raw_origin": (ox, oy), "w": float(w), "h": float(h), "raw_size": (w, h),
                        "fill": colours[("labelBgColor", nm)], "border": border, "text": text,
                        "text_colour": colours[("labelTextColor", nm)] if text is not None else None, "name": nm})
        j = k + 1
    j += 1
    j = expect(j, "")
    j = expect(j, "% dots")
    j = expect(j, "\\begin{scope}")
    while body[j] != "\\end{scope}":
        buf = body[j] + "\n" + body[j + 1]
        m = _DOT.match(buf)
        if not m:
            raise Unparseable("dot %r" % buf[:100])
        size, nm, x, y = m.groups()
        if ("dotColor", nm) not in colours:
            raise Unparseable("dot colour macro undefined")
        # "(pos, 0)" for horizontal axes, "(0, pos)" for vertical ones
        if y == "0" and x != "0":
            orient, raw = "h", x
        elif x == "0" and y != "0":
            orient, raw = "v", y
        elif x == "0" and y == "0":
            orient, raw = "?", "0"
        else:
            raise Unparseable("dot off the axis line: (%s, %s)" % (x, y))
        # %f prints 0 as 0.000000, the fixed 0 as "0": distinguishes the two forms
        P.dots.append({"pos": float(raw), "raw": raw, "orient": orient, "colour": colours[("dotColor", nm)], "size": size, "name": nm})
        j += 2
    j += 1
    j = expect(j, "")
    j = expect(j, "\\end{scope}")
    j = expect(j, "\\end{scope}")
    j = expect(j, "\\end{tikzpicture}")
    j = expect(j, "\\end{document}")
    for d in P.dots:
        if d["orient"] == "?":
            d["orient"] = P.axis["orient"]
    return P
