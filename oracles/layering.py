"""Structural oracle for C04: conservation of labels, stub chains, capacity.
Works on the live node objects (attribute reads only).  No import of labella."""

import math
from collections import Counter
from fractions import Fraction as F


def judge_layering(labels, layers, algorithm, layer_width, density, spacing, stub_width):
    """labels: input node objects; layers: list of lists returned by the layering step.
    Returns (problems, info)."""
    probs = []
    info = {"n_labels": len(labels), "n_layers": 0}
    if layers is None:
        return [{"rule": "no-layering-returned"}], info
    label_ids = {id(n): n for n in labels}
    where = {}
    # (2) non-empty layers form a prefix
    nonempty = [k for k, L in enumerate(layers) if len(L) > 0]
    if nonempty != list(range(len(nonempty))):
        probs.append({"rule": "layers-not-contiguous", "nonempty": nonempty[:10]})
    K = len(nonempty)
    info["n_layers"] = K
    # (1) every label exactly once, as itself
    seen_items = Counter()
    for k, L in enumerate(layers):
        for it in L:
            seen_items[id(it)] += 1
            if id(it) in label_ids:
                where.setdefault(id(it), []).append(k)
    for i, n in enumerate(labels):
        ks = where.get(id(n), [])
        if len(ks) != 1:
            probs.append({"rule": "label-not-in-exactly-one-layer", "label": i, "layers": ks})
            return probs, info
    dup = [k for k, c in seen_items.items() if c > 1]
    if dup:
        probs.append({"rule": "item-listed-twice"})
    # (3) stub chains
    expected_stubs = {}
    for i, n in enumerate(labels):
        k = where[id(n)][0]
        cur = n
        for j in range(k - 1, -1, -1):
            p = getattr(cur, "parent", None)
            if p is None:
                probs.append({"rule": "missing-stub", "label": i, "label_layer": k, "missing_in_layer": j})
                return probs, info
            if getattr(p, "child", None) is not cur:
                probs.append({"rule": "stub-child-link-broken", "label": i, "layer": j})
                return probs, info
            if id(p) in label_ids:
                probs.append({"rule": "stub-is-a-label", "label": i, "layer": j})
                return probs, info
            if not any(x is p for x in layers[j]):
                probs.append({"rule": "stub-not-in-its-layer", "label": i, "layer": j})
                return probs, info
            if p.idealPos != n.idealPos:
                probs.append({"rule": "stub-position", "label": i, "layer": j, "stub": p.idealPos, "label_pos": n.idealPos})
            if p.data is not n.data:
                probs.append({"rule": "stub-payload", "label": i, "layer": j})
            if p.width != stub_width:
                probs.append({"rule": "stub-width", "label": i, "layer": j, "width": p.width, "configured": stub_width})
            expected_stubs[id(p)] = j
            cur = p
        if getattr(cur, "parent", None) is not None:
            probs.append({"rule": "chain-continues-below-layer-0", "label": i})
        if getattr(n, "child", None) is not None:
            probs.append({"rule": "label-has-child", "label": i})
    # (4) nothing else exists
    for k, L in enumerate(layers):
        for it in L:
            if id(it) in label_ids:
                continue
            if expected_stubs.get(id(it)) != k:
                probs.append({"rule": "foreign-item", "layer": k, "idealPos": getattr(it, "idealPos", None)})
                return probs, info
    total = sum(len(L) for L in layers)
    if total != len(labels) + len(expected_stubs):
        probs.append({"rule": "item-count", "items": total, "labels": len(labels), "stubs": len(expected_stubs)})
    # (6) capacity
    req = sum(F(n.width) for n in labels) + F(spacing) * (len(labels) - 1)
    info["required"] = float(req)
    if algorithm == "none" or not layer_width:
        info["class"] = "no-split-expected"
        if K > 1:
            probs.append({"rule": "split-without-layer-width" if not layer_width else "split-with-algorithm-none", "layers": K})
    else:
        budget = F(density) * F(layer_width)
        info["budget"] = float(budget)
        # the code sums widths in floats: at the boundary either outcome is acceptable - unless every quantity is a small
        # dyadic rational (multiples of 2**-10 below 2**30), for which float sums and the product are exact in any order
        vals = [F(n.width) for n in labels] + [F(spacing), F(layer_width), budget]
        exact = all((v * 1024).denominator == 1 and abs(v) < 2**30 for v in vals) and F(float(density) * float(layer_width)) == budget
        info["exact_arithmetic"] = exact
        band = 0 if exact else budget * F(1, 10**9)
        if not exact and abs(req - budget) <= band:
            info["class"] = "at-budget-boundary"
        elif req <= budget:
            info["class"] = "fits"
            if K > 1:
                probs.append({"rule": "split-although-fits", "layers": K, "required": float(req), "budget": float(budget)})
        else:
            widest = max(F(n.width) for n in labels)
            info["class"] = "le2-labels-unfit" if len(labels) <= 2 else ("wide-label" if widest > budget else ("split-2" if K == 2 else "split-3+"))
            if algorithm == "overlap" and len(labels) >= 3:
                if K < 2:
                    probs.append({"rule": "not-split-although-unfit", "required": float(req), "budget": float(budget)})
                for k, L in enumerate(layers):
                    own = [it for it in L if id(it) in label_ids]
                    if len(own) > 2:
                        used = sum(F(it.width) for it in own) + F(stub_width) * (len(L) - len(own)) + F(spacing) * (len(L) - 1)
                        if used > budget * (1 + F(1, 10**12)):
                            probs.append({"rule": "layer-over-budget", "layer": k, "used": float(used), "budget": float(budget), "labels": len(own), "stubs": len(L) - len(own)})
                            break
    return probs, info


def judge_reported(force_layers, layers, all_items_layer_index=True):
    """(5) the engine reports exactly this layering after a layout."""
    probs = []
    if force_layers is None:
        return [{"rule": "getLayers-returns-None"}]
    try:
        fl = [list(L) for L in force_layers]
    except TypeError:
        return [{"rule": "getLayers-not-a-list-of-lists"}]
    a = [sorted(id(x) for x in L) for L in fl if len(L)]
    b = [sorted(id(x) for x in L) for L in layers if len(L)]
    if a != b:
        probs.append({"rule": "getLayers-differs-from-layering", "reported_sizes": [len(L) for L in fl], "layering_sizes": [len(L) for L in layers]})
        return probs
    for k, L in enumerate(fl):
        for it in L:
            if getattr(it, "layerIndex", None) != k:
                probs.append({"rule": "layerIndex-mismatch", "layer": k, "layerIndex": getattr(it, "layerIndex", None)})
                return probs
    return probs
