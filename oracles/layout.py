"""Reference oracles for per-layer placement (C01-C03): exact rational arithmetic on
the recorded floats.  Independent of labella.

A layer record is a list of items in the chain order left by the code:
    {"t": target, "w": width, "stub": bool, "pos": final position}
"""

from fractions import Fraction as F

LINE_SPACING = 2  # fixed spacing between two stubs (documented)


def gaps(items, spacing):
    out = []
    for a, b in zip(items, items[1:]):
        s = LINE_SPACING if (a["stub"] and b["stub"]) else spacing
        out.append((F(a["w"]) + F(b["w"])) / 2 + F(s))
    return out


def required(items, spacing):
    if not items:
        return F(0)
    return sum(gaps(items, spacing), F(0)) + F(items[0]["w"]) / 2 + F(items[-1]["w"]) / 2


def judge_c01(items, spacing, slack=F(1) + F(1, 10**9)):
    """Order of targets + separation of every pair (adjacent: own gap; non-adjacent: what the
    chain of adjacent gaps implies, capped by the direct pair requirement).  Returns problems."""
    probs = []
    n = len(items)
    for i in range(n - 1):
        if items[i]["t"] > items[i + 1]["t"]:
            probs.append({"rule": "order", "i": i, "targets": [items[i]["t"], items[i + 1]["t"]]})
            return probs
    g = gaps(items, spacing)
    pos = [F(it["pos"]) for it in items]
    for i in range(n - 1):
        if pos[i + 1] - pos[i] < g[i] - slack:
            probs.append({"rule": "adjacent-separation", "i": i, "distance": float(pos[i + 1] - pos[i]), "required": float(g[i]),
                          "stubs": [items[i]["stub"], items[i + 1]["stub"]]})
            return probs
    # non-adjacent pairs: cumulative gaps
    G = [F(0)]
    for x in g:
        G.append(G[-1] + x)
    # O(n) screen: with u_j = pos_j - G_j the chain-implied requirement of every pair reads
    # u_k - u_i >= -slack; if it holds for all pairs (running maximum) nothing else can fail,
    # because the judged requirement min(direct, chain) is never larger than the chain one.
    run_max, ok = None, True
    for j in range(n):
        u = pos[j] - G[j]
        if run_max is not None and run_max - u > slack:
            ok = False
            break
        if run_max is None or u > run_max:
            run_max = u
    if ok:
        return probs
    for i in range(n):
        for k in range(i + 2, n):
            s = LINE_SPACING if (items[i]["stub"] and items[k]["stub"]) else spacing
            direct = (F(items[i]["w"]) + F(items[k]["w"])) / 2 + F(s)
            need = min(direct, G[k] - G[i])
            if pos[k] - pos[i] < need - slack:
                probs.append({"rule": "pair-separation", "i": i, "k": k, "distance": float(pos[k] - pos[i]), "required": float(need)})
                return probs
    return probs


def pava(y, w=None):
    """Weighted isotonic (non-decreasing) regression, exact.  Returns fitted list."""
    n = len(y)
    if w is None:
        w = [F(1)] * n
    vals, wts, cnt = [], [], []
    for i in range(n):
        vals.append(F(y[i]))
        wts.append(F(w[i]))
        cnt.append(1)
        while len(vals) > 1 and vals[-2] > vals[-1]:
            v = (vals[-2] * wts[-2] + vals[-1] * wts[-1]) / (wts[-2] + wts[-1])
            wt = wts[-2] + wts[-1]
            c = cnt[-2] + cnt[-1]
            vals.pop(); wts.pop(); cnt.pop()
            vals[-1], wts[-1], cnt[-1] = v, wt, c
    out = []
    for v, c in zip(vals, cnt):
        out.extend([v] * c)
    return out, len(vals)


def optimum(items, spacing, min_pos, max_pos):
    """Unique least-squares placement of the chain.  Returns (x*, fits, info)."""
    n = len(items)
    g = gaps(items, spacing)
    G = [F(0)]
    for x in g:
        G.append(G[-1] + x)
    y = [F(items[i]["t"]) - G[i] for i in range(n)]
    ystar, nblocks = pava(y)
    lo = None if min_pos is None else F(min_pos) + F(items[0]["w"]) / 2
    hi = None if max_pos is None else F(max_pos) - F(items[-1]["w"]) / 2 - G[-1]
    fits = not (lo is not None and hi is not None and lo > hi)
    if fits:
        if lo is not None:
            ystar = [max(v, lo) for v in ystar]
        if hi is not None:
            ystar = [min(v, hi) for v in ystar]
    xs = [ystar[i] + G[i] for i in range(n)]
    moved = any(xs[i] != F(items[i]["t"]) for i in range(n))
    return xs, fits, {"blocks": nblocks, "moved": moved, "lo": lo, "hi": hi}


def judge_c02(items, spacing, min_pos, max_pos, tol=F(1, 2) + F(1, 1000)):
    """Returns (verdict, problems, info): verdict in held / violated / out_of_scope."""
    xs, fits, info = optimum(items, spacing, min_pos, max_pos)
    if not fits:
        return "out_of_scope", [], info
    for i, it in enumerate(items):
        if abs(F(it["pos"]) - xs[i]) > tol:
            return "violated", [{"rule": "not-optimal", "i": i, "pos": it["pos"], "optimum": float(xs[i]), "target": it["t"],
                                 "optimum_all": [float(v) for v in xs[:12]]}], info
    return "held", [], info


def judge_c03(items, spacing, min_pos, max_pos, tol=F(1, 2) + F(1, 1000)):
    """Bounds honoured when the layer fits; otherwise full separation and spill.
    Returns (verdict, problems, info)."""
    info = {}
    if min_pos is None and max_pos is None:
        return "out_of_scope", [], info
    req = required(items, spacing)
    both = min_pos is not None and max_pos is not None
    avail = F(max_pos) - F(min_pos) if both else None
    fits = (not both) or req <= avail + F(1, 10**9)
    info["required"] = float(req)
    info["available"] = float(avail) if avail is not None else None
    info["fits"] = fits
    left = min(F(it["pos"]) - F(it["w"]) / 2 for it in items)
    right = max(F(it["pos"]) + F(it["w"]) / 2 for it in items)
    info["extent"] = [float(left), float(right)]
    probs = []
    if fits:
        if min_pos is not None and left < F(min_pos) - tol:
            probs.append({"rule": "lower-bound", "left_edge": float(left), "minPos": min_pos})
        if max_pos is not None and right > F(max_pos) + tol:
            probs.append({"rule": "upper-bound", "right_edge": float(right), "maxPos": max_pos})
        tight = (min_pos is not None and left <= F(min_pos) + 1) or (max_pos is not None and right >= F(max_pos) - 1)
        info["wall_tight"] = tight
    else:
        p = judge_c01(items, spacing)
        if p:
            probs.append({"rule": "misfit-absorbed-as-overlap", "detail": p[0]})
        info["spill"] = [float(F(min_pos) - left), float(right - F(max_pos))]
        # separation kept in full => the extent cannot lie inside the bounds (rounding: 1 unit)
        if not probs and (right - left) < req - len(items):
            probs.append({"rule": "extent-shorter-than-required", "extent": float(right - left), "required": float(req)})
    return ("violated" if probs else "held"), probs, info
