"""Optimality/feasibility certificates for separation-constraint QPs (C05).

    minimise  sum_i w_i (x_i - d_i)^2   s.t.  s_r x_r - s_l x_l >= gap_c  for every constraint c=(l,r,gap)

Weak duality: for ANY lambda >= 0,
    g(lambda) = sum_c lambda_c gap_c - sum_i (A_i d_i + A_i^2 / (4 w_i)),
    A_i = s_i * (sum_{c: r(c)=i} lambda_c - sum_{c: l(c)=i} lambda_c)
is a lower bound on the optimal cost.  Everything that decides is evaluated in
exact rational arithmetic on the recorded floats.  Independent of labella.
"""

from fractions import Fraction as F


class Instance(object):
    """d, w, s: lists of numbers; cons: list of (l, r, gap)."""

    def __init__(self, d, w, s, cons):
        self.d = list(d)
        self.w = list(w)
        self.s = list(s)
        self.cons = [tuple(c) for c in cons]
        self.n = len(self.d)

    def to_json(self):
        return {"desired": self.d, "weight": self.w, "scale": self.s, "constraints": [list(c) for c in self.cons]}

    @classmethod
    def from_json(cls, j):
        return cls(j["desired"], j["weight"], j["scale"], j["constraints"])


def cost_exact(inst, x):
    return sum(F(inst.w[i]) * (F(x[i]) - F(inst.d[i])) ** 2 for i in range(inst.n))


def slacks_exact(inst, x):
    return [F(inst.s[r]) * F(x[r]) - F(inst.s[l]) * F(x[l]) - F(g) for (l, r, g) in inst.cons]


def dual_value(inst, lam):
    """Exact g(lambda) for lambda given as dict c_index -> Fraction >= 0."""
    A = [F(0)] * inst.n
    val = F(0)
    for c, lc in lam.items():
        if lc == 0:
            continue
        l, r, g = inst.cons[c]
        A[r] += F(inst.s[r]) * lc
        A[l] -= F(inst.s[l]) * lc
        val += lc * F(g)
    for i in range(inst.n):
        if A[i] != 0:
            val -= A[i] * F(inst.d[i]) + A[i] * A[i] / (4 * F(inst.w[i]))
    return val


def forest_multipliers(inst, x, active):
    """Multipliers of the constraints in `active` (indices; must form a forest) that make
    x stationary: 2 w_i (x_i - d_i) = sum over incident active c of (+s_i lambda_c if i = r(c),
    -s_i lambda_c if i = l(c)).  Solved leaf-inwards, exactly.  Returns dict or None if the
    active set has a cycle."""
    adj = {}
    for c in active:
        l, r, _ = inst.cons[c]
        if l == r:
            return None
        adj.setdefault(l, []).append(c)
        adj.setdefault(r, []).append(c)
    resid = {i: 2 * F(inst.w[i]) * (F(x[i]) - F(inst.d[i])) for i in adj}
    deg = {i: len(cs) for i, cs in adj.items()}
    alive = set(active)
    lam = {}
    leaves = [i for i, k in deg.items() if k == 1]
    while leaves:
        i = leaves.pop()
        if deg.get(i, 0) != 1:
            continue
        c = next(cc for cc in adj[i] if cc in alive)
        l, r, _ = inst.cons[c]
        # resid_i = coeff * lambda_c
        if i == r:
            lc = resid[i] / F(inst.s[r])
            other = l
            resid[other] += F(inst.s[l]) * lc
        else:
            lc = -resid[i] / F(inst.s[l])
            other = r
            resid[other] -= F(inst.s[r]) * lc
        lam[c] = lc
        alive.discard(c)
        deg[i] -= 1
        deg[other] -= 1
        if deg[other] == 1:
            leaves.append(other)
    if alive:
        return None  # cycle among active constraints
    return lam


def clip(lam):
    return {c: (v if v > 0 else F(0)) for c, v in lam.items()}


def topo_order(inst):
    """Topological order of the constraint graph, or None if cyclic."""
    indeg = [0] * inst.n
    out = [[] for _ in range(inst.n)]
    for l, r, _ in inst.cons:
        if l == r:
            return None
        out[l].append(r)
        indeg[r] += 1
    order = [i for i in range(inst.n) if indeg[i] == 0]
    k = 0
    while k < len(order):
        i = order[k]
        k += 1
        for j in out[i]:
            indeg[j] -= 1
            if indeg[j] == 0:
                order.append(j)
    return order if len(order) == inst.n else None


def repair_feasible(inst, x, order):
    """Push variables forward along a topological order until every constraint holds (exactly)."""
    x = [F(v) for v in x]
    inc = [[] for _ in range(inst.n)]
    for l, r, g in inst.cons:
        inc[r].append((l, g))
    for i in order:
        need = None
        for l, g in inc[i]:
            v = (F(inst.s[l]) * x[l] + F(g)) / F(inst.s[i])
            if need is None or v > need:
                need = v
        if need is not None and x[i] < need:
            x[i] = need
    return x


def hildreth(inst, sweeps=20000, tol=1e-10, lam0=None):
    """Dual coordinate ascent in floats.  Returns (lambda list, primal x list, sweeps used)."""
    n, m = inst.n, len(inst.cons)
    w = [float(v) for v in inst.w]
    s = [float(v) for v in inst.s]
    d = [float(v) for v in inst.d]
    lam = [0.0] * m
    A = [0.0] * n
    if lam0:
        for c, v in lam0.items():
            v = float(v)
            if v > 0:
                lam[c] = v
                l, r, _ = inst.cons[c]
                A[r] += s[r] * v
                A[l] -= s[l] * v
    q = []
    for l, r, g in inst.cons:
        q.append(s[r] * s[r] / (2 * w[r]) + s[l] * s[l] / (2 * w[l]))
    used = 0
    scale = 1.0 + max(abs(v) for v in d) if d else 1.0
    for used in range(1, sweeps + 1):
        worst = 0.0
        for c in range(m):
            l, r, g = inst.cons[c]
            xr = d[r] + A[r] / (2 * w[r])
            xl = d[l] + A[l] / (2 * w[l])
            slack = s[r] * xr - s[l] * xl - g
            new = lam[c] - slack / q[c]
            if new < 0:
                new = 0.0
            delta = new - lam[c]
            if delta != 0.0:
                lam[c] = new
                A[r] += s[r] * delta
                A[l] -= s[l] * delta
                ch = abs(delta) * q[c]
                if ch > worst:
                    worst = ch
        if worst <= tol * scale:
            break
    x = [d[i] + A[i] / (2 * w[i]) for i in range(n)]
    return lam, x, used


def certify(inst, x, reported_cost, active=None, tol_rel=1e-3, feas_tol=1e-6, proposals=(), hildreth_sweeps=6000):
    """Judge a returned solution of an ACYCLIC instance.

    proposals: extra candidate points (lists of floats) proposed by anyone (e.g. the
    library's own continued iteration); they are only used after an exact feasibility check.

    Returns dict(verdict in held/violated/inconclusive, reason, cost, lb, ub, ...)."""
    out = {}
    sl = slacks_exact(inst, x)
    worst = min(sl) if sl else F(0)
    out["min_slack"] = float(worst)
    if worst < -F(feas_tol):
        k = sl.index(worst)
        out.update(verdict="violated", reason="infeasible", constraint=list(inst.cons[k]), slack=float(worst))
        return out
    cost = cost_exact(inst, x)
    out["cost"] = float(cost)
    if reported_cost is not None:
        if abs(F(reported_cost) - cost) > F(1, 10**9) * (1 + abs(cost)):
            out.update(verdict="violated", reason="reported cost differs from the cost of the reported positions", reported=float(reported_cost))
            return out
    # absolute tolerance (the solver stops at multipliers >= -1e-4 and cost changes <= 1e-4) plus the float
    # noise of a cost dominated by heavy variables (positions carry ~1e-16 relative error, cost ~1e-15*cost)
    tol = F(tol_rel) * (1 + cost * F(1, 10**6))
    best_lb = None
    method = None
    if active is not None:
        lam = forest_multipliers(inst, x, active)
        if lam is not None:
            out["min_multiplier"] = float(min(lam.values())) if lam else 0.0
            lb = dual_value(inst, clip(lam))
            best_lb, method = lb, "active-forest"
    # tight constraints spanning forest as a second source of multipliers
    if best_lb is None or cost - best_lb > tol:
        tight = [c for c, v in enumerate(sl) if abs(v) <= F(1, 10**6)]
        forest = _spanning_forest(inst, tight)
        lam = forest_multipliers(inst, x, forest)
        if lam is not None:
            lb = dual_value(inst, clip(lam))
            if best_lb is None or lb > best_lb:
                best_lb, method = lb, "tight-forest"
    out["lb"] = float(best_lb) if best_lb is not None else None
    out["lb_method"] = method
    if best_lb is not None and cost - best_lb <= tol:
        out.update(verdict="held", gap=float(cost - best_lb))
        return out
    # fall-backs: bracket the optimum
    order = topo_order(inst)
    if order is None:
        out.update(verdict="inconclusive", reason="instance is cyclic")
        return out
    best_ub, ub_point, ub_src = None, None, None
    for prop in proposals:
        name, p = prop[0], prop[1]
        pact = prop[2] if len(prop) > 2 else None
        pf = [F(v) for v in p]
        if min(slacks_exact(inst, pf), default=F(0)) >= -F(feas_tol) / 1000:
            c2 = cost_exact(inst, pf)
            if best_ub is None or c2 < best_ub:
                best_ub, ub_point, ub_src = c2, [float(v) for v in pf], name
            if pact is not None:
                lam = forest_multipliers(inst, pf, pact)
                if lam is not None:
                    lb = dual_value(inst, clip(lam))
                    if best_lb is None or lb > best_lb:
                        best_lb, method = lb, "forest of " + name
    if best_lb is not None and best_ub is not None:
        out["lb"], out["lb_method"] = float(best_lb), method
        out["ub"], out["ub_source"] = float(best_ub), ub_src
        if cost - best_lb <= tol:
            out.update(verdict="held", gap=float(cost - best_lb))
            return out
        if cost > best_ub + tol:
            out.update(verdict="violated", reason="sub-optimal", better_point=ub_point, better_cost=float(best_ub), excess=float(cost - best_ub))
            return out
    lamf, xf, used = hildreth(inst, sweeps=hildreth_sweeps)
    out["hildreth_sweeps"] = used
    lb = dual_value(inst, {c: F(v) for c, v in enumerate(lamf) if v > 0})
    if best_lb is None or lb > best_lb:
        best_lb, method = lb, "hildreth"
    xr = repair_feasible(inst, xf, order)
    c2 = cost_exact(inst, xr)
    if best_ub is None or c2 < best_ub:
        best_ub, ub_point, ub_src = c2, [float(v) for v in xr], "hildreth+repair"
    out["lb"], out["lb_method"] = float(best_lb), method
    out["ub"], out["ub_source"] = float(best_ub), ub_src
    if cost - best_lb <= tol:
        out.update(verdict="held", gap=float(cost - best_lb))
    elif cost > best_ub + tol:
        out.update(verdict="violated", reason="sub-optimal", better_point=ub_point, better_cost=float(best_ub), excess=float(cost - best_ub))
    else:
        out.update(verdict="inconclusive", reason="optimum not bracketed tightly enough", gap=float(cost - best_lb))
    return out


def _spanning_forest(inst, cons_idx):
    parent = list(range(inst.n))

    def find(a):
        while parent[a] != a:
            parent[a] = parent[parent[a]]
            a = parent[a]
        return a

    forest = []
    for c in cons_idx:
        l, r, _ = inst.cons[c]
        a, b = find(l), find(r)
        if a != b:
            parent[a] = b
            forest.append(c)
    return forest
