"""Oracles over parsed exports (C07, C08, C09).  Independent of labella: they use
the caller's original spec, the parsed Picture, the domain the scale reports and
(for stub positions / layer indices) what the H1 hook recorded.
"""

import calendar
import datetime as dt
import re
import unicodedata
from fractions import Fraction as F

from oracles import calendar as C
from oracles import texinv

DEFAULTS = {
    "margin": {"left": 20, "right": 20, "top": 20, "bottom": 20},
    "initialWidth": 400,
    "initialHeight": 400,
    "direction": "right",
    "layerGap": 60,
    "labelPadding": {"left": 2, "right": 2, "top": 3, "bottom": 2},
    "showTicks": True,
    "showBorder": False,
    "dotColor": "#222",
    "labelBgColor": "#222",
    "labelTextColor": "#fff",
    "linkColor": "#222",
    "borderColor": "#000",
}
LABEL_HEIGHT = 13.0  # height of a label whose width is given explicitly (documented default)


def opt(spec, name):
    o = spec.get("options") or {}
    return o.get(name, DEFAULTS[name])


def inner_dims(spec):
    m = dict(DEFAULTS["margin"])
    m.update(opt(spec, "margin"))
    return opt(spec, "initialWidth") - m["left"] - m["right"], opt(spec, "initialHeight") - m["top"] - m["bottom"]


class Geo(object):
    def __init__(self, spec):
        self.direction = opt(spec, "direction")
        iw, ih = inner_dims(spec)
        self.horizontal = self.direction in ("up", "down")
        self.L = iw if self.horizontal else ih
        self.orient = "h" if self.horizontal else "v"
        self.sign = -1 if self.direction in ("up", "left") else 1
        self.shift = {"right": (0, 0), "down": (0, 0), "left": (iw, 0), "up": (0, ih)}[self.direction]

    def along(self, p):
        return p[0] if self.horizontal else p[1]

    def across(self, p):
        return p[1] if self.horizontal else p[0]


def to_num(t):
    """Time as a rational number (ms since epoch for datetimes)."""
    if isinstance(t, dt.datetime):
        return F((t - dt.datetime(1970, 1, 1)) // dt.timedelta(microseconds=1), 1000)
    return F(t)


def expected_positions(taus, domain, L):
    d0, d1 = to_num(domain[0]), to_num(domain[1])
    if d0 == d1:
        return None
    return [F(L) * (to_num(t) - d0) / (d1 - d0) for t in taus]


# ---------------------------------------------------------------------------
# tick text consistency (time scale)

_MONTHS = [calendar.month_name[i] for i in range(1, 13)]
_MABBR = [calendar.month_abbr[i] for i in range(1, 13)]
_DABBR = ["Mon", "Tue", "Wed", "Thu", "Fri", "Sat", "Sun"]


def time_text_consistent(text, t):
    """Is `text` a rendering of instant t under one of the documented tick formats
    (%Y / %B / '%b %d' / '%a %d' / '%I %p' / '%H:%M' / ':%S')?"""
    if re.fullmatch(r"\d{4}", text):
        return int(text) == t.year
    if text in _MONTHS:
        return _MONTHS.index(text) + 1 == t.month
    m = re.fullmatch(r"([A-Z][a-z]{2}) (\d{2})", text)
    if m:
        if m.group(1) in _MABBR and _MABBR.index(m.group(1)) + 1 == t.month and int(m.group(2)) == t.day:
            return True
        if m.group(1) in _DABBR and _DABBR.index(m.group(1)) == t.weekday() and int(m.group(2)) == t.day:
            return True
        return False
    m = re.fullmatch(r"(\d{2}) (AM|PM)", text)
    if m:
        h = int(m.group(1)) % 12 + (12 if m.group(2) == "PM" else 0)
        return h == t.hour
    m = re.fullmatch(r"(\d{2}):(\d{2})", text)
    if m:
        return int(m.group(1)) == t.hour and int(m.group(2)) == t.minute
    m = re.fullmatch(r":(\d{2})", text)
    if m:
        return int(m.group(1)) == t.second
    return False


def granularity_candidates(lo, hi, cap=400):
    """Calendar boundaries (coarse to fine) inside [lo, hi], at most `cap` per unit."""
    out = []
    for unit in ("year", "month", "week", "day", "hour", "minute", "second"):
        try:
            b = C.ceil(unit, lo)
        except (ValueError, OverflowError):
            continue
        k = 0
        while b <= hi and k < cap:
            out.append(b)
            try:
                b = C.step(unit, b, 1)
            except (ValueError, OverflowError):
                break
            k += 1
    return out


# ---------------------------------------------------------------------------
# matching boxes / links / dots to data


def label_chain(node):
    chain = []
    cur = node
    guard = 0
    while cur is not None and guard < 10000:
        chain.append(cur)
        cur = cur.parent
        guard += 1
    chain.reverse()
    return chain


def expected_box_sizes(spec, d, has_text):
    """Set of acceptable (w, h) for the datum's box."""
    pad = dict(DEFAULTS["labelPadding"])
    pad.update(opt(spec, "labelPadding"))
    lr = pad["left"] + pad["right"]
    tb = pad["top"] + pad["bottom"]
    W = d["width"]
    H = LABEL_HEIGHT
    if opt(spec, "direction") in ("up", "down"):
        return {(W + lr, H + tb)}
    # left/right: the code rotates the padding pairs with the item; either assignment of the two
    # padding pairs and either orientation of the label are accepted, a missing padding is not
    return {(W + lr, H + tb), (W + tb, H + lr), (H + lr, W + tb), (H + tb, W + lr)}


def text_matches(kind, original, shown):
    if original is None or original == "":
        return shown is None or shown == ""
    if shown is None:
        return False
    if kind == "svg":
        return shown == original
    if any(c in texinv.AMBIGUOUS for c in original):
        return True  # read-back ambiguous by construction (C19's exclusion)
    ok, _, _ = texinv.judge(original, shown)
    return ok


def match(spec, P, kind, data_text, geo):
    """Identify each drawn box with its datum (signature = size and text), each link with the box it
    ends on.  Returns (by_uid, problems)."""
    probs = []
    data = spec["data"]
    n = len(data)
    if not (len(P.boxes) == len(P.links) == len(P.dots) == n):
        probs.append({"rule": "counts", "data": n, "boxes": len(P.boxes), "links": len(P.links), "dots": len(P.dots)})
        return None, probs
    by_uid = {}
    used = set()
    for d in data:
        txt = data_text(d)
        sizes = expected_box_sizes(spec, d, bool(txt))
        cands = [k for k, b in enumerate(P.boxes) if k not in used and any(abs(b["w"] - w) < 1e-9 and abs(b["h"] - h) < 1e-9 for (w, h) in sizes)
                 and text_matches(kind, txt, b["text"])]
        if len(cands) != 1:
            # sizes are distinct by construction, so 0 candidates = wrong size or text
            near = [k for k, b in enumerate(P.boxes) if any(abs(b["w"] - w) < 1e-9 and abs(b["h"] - h) < 1e-9 for (w, h) in sizes)]
            probs.append({"rule": "box-signature", "uid": d["uid"], "expected_sizes": sorted(sizes), "expected_text": txt,
                          "candidates": len(cands), "boxes_with_that_size": [{"w": P.boxes[k]["w"], "h": P.boxes[k]["h"], "text": P.boxes[k]["text"]} for k in near[:3]]})
            return None, probs
        used.add(cands[0])
        by_uid[d["uid"]] = {"box": P.boxes[cands[0]], "box_index": cands[0]}
    # links by the box edge they end on
    used = set()
    for uid, e in by_uid.items():
        b = e["box"]
        ox, oy = b["origin"]
        if geo.direction == "down":
            mid = (ox + b["w"] / 2.0, oy)
        elif geo.direction == "up":
            mid = (ox + b["w"] / 2.0, oy + b["h"])
        elif geo.direction == "right":
            mid = (ox, oy + b["h"] / 2.0)
        else:
            mid = (ox + b["w"], oy + b["h"] / 2.0)
        e["edge_mid"] = mid
        cands = []
        for k, ln in enumerate(P.links):
            if k in used or not ln["segments"]:
                continue
            end = ln["segments"][-1]["points"][-1]
            if abs(end[0] - mid[0]) <= 1.0 + 1e-9 and abs(end[1] - mid[1]) <= 1.0 + 1e-9:
                cands.append(k)
        if len(cands) == 0:
            ends = [ln["segments"][-1]["points"][-1] for ln in P.links if ln["segments"]]
            ends.sort(key=lambda p: (p[0] - mid[0]) ** 2 + (p[1] - mid[1]) ** 2)
            probs.append({"rule": "link-does-not-end-on-its-box", "uid": uid, "edge_middle": mid, "nearest_link_end": ends[0] if ends else None})
            return None, probs
        if len(cands) > 1:
            # several links end within a unit of this edge middle: take the closest
            cands.sort(key=lambda k: (P.links[k]["segments"][-1]["points"][-1][0] - mid[0]) ** 2 + (P.links[k]["segments"][-1]["points"][-1][1] - mid[1]) ** 2)
        used.add(cands[0])
        e["link"] = P.links[cands[0]]
        e["link_index"] = cands[0]
    return by_uid, probs


# ---------------------------------------------------------------------------
# C07


def judge_c07(spec, res, kind, data_text, data_time, normalise_time):
    """res: {"picture": Picture, "domain": [d0,d1], "labels": H1 label nodes or None}.  Returns problems."""
    P = res["picture"]
    geo = Geo(spec)
    data = spec["data"]
    probs = []
    tol_pos = 1e-9 * max(1.0, geo.L) + (2e-6 if kind == "tikz" else 0.0)
    # frame
    if P.axis["orient"] not in (geo.orient, None) or abs(P.axis["length"] - geo.L) > (1.0 if kind == "tikz" else 1e-9):
        probs.append({"rule": "axis-line", "printed": P.axis, "expected_length": geo.L, "expected_orient": geo.orient})
    if abs(P.main_shift[0] - geo.shift[0]) > 1 or abs(P.main_shift[1] - geo.shift[1]) > 1:
        probs.append({"rule": "main-layer-shift", "printed": P.main_shift, "expected": geo.shift})
    by_uid, p2 = match(spec, P, kind, data_text, geo)
    probs.extend(p2)
    # dots: one increasing affine map of the time as supplied
    taus = [normalise_time(data_time(d)) for d in data]
    dom = res["domain"]
    o = spec.get("options") or {}
    if o.get("domain"):
        given = [to_num(x) for x in o["domain"]]
        if [to_num(x) for x in dom] != given:
            probs.append({"rule": "explicit-domain-not-used", "given": o["domain"], "reported": dom})
    d0, d1 = to_num(dom[0]), to_num(dom[1])
    tn = [to_num(t) for t in taus]
    if d0 != d1 and not (d0 <= min(tn) and max(tn) <= d1):
        probs.append({"rule": "domain-does-not-cover-data", "reported": dom})
    exp = expected_positions(taus, dom, geo.L)
    if d0 != d1 and any(isinstance(t, dt.datetime) and t.microsecond % 1000 for t in taus):
        # a time finer than a millisecond is not a whole number of epoch milliseconds: its float carries up to half an ulp of
        # ~1e12 ms (0.1-0.5 us), which a short domain magnifies by axis length / domain span
        import math

        tol_pos += 4 * math.ulp(float(max(abs(x) for x in tn + [d0, d1]))) * geo.L / float(abs(d1 - d0))
    got = sorted(d["pos"] for d in P.dots)
    if any(d["orient"] != geo.orient for d in P.dots):
        probs.append({"rule": "dot-off-axis-line", "orient": [d["orient"] for d in P.dots][:5]})
    if any(abs(d.get("across", 0.0)) > 1e-9 for d in P.dots):
        probs.append({"rule": "dot-off-axis-line", "across": [d.get("across", 0.0) for d in P.dots][:5]})
    if exp is None:
        if any(abs(g) > tol_pos for g in got):
            probs.append({"rule": "degenerate-domain-dots-not-at-axis-start", "dots": got[:5]})
    else:
        if d1 <= d0:
            probs.append({"rule": "axis-map-not-increasing", "reported_domain": dom})
        e = sorted(float(x) for x in exp)
        if len(e) == len(got):
            for a, b in zip(e, got):
                if abs(a - b) > tol_pos:
                    probs.append({"rule": "dot-not-at-true-time", "expected_sorted": e[:8], "drawn_sorted": got[:8], "first_mismatch": [a, b]})
                    break
        for g in got:
            if not (-tol_pos <= g <= geo.L + tol_pos):
                probs.append({"rule": "dot-outside-axis", "pos": g, "axis_length": geo.L})
                break
    # ticks
    show = opt(spec, "showTicks")
    if bool(P.has_axis_layer) != bool(show):
        probs.append({"rule": "tick-display", "showTicks": show, "axis_layer_present": P.has_axis_layer})
    if show and exp is not None and d1 > d0:
        is_time = isinstance(dom[0], dt.datetime)
        b = F(geo.L) / (d1 - d0)
        for tk in P.ticks:
            if tk["orient"] != geo.orient:
                probs.append({"rule": "tick-orientation", "tick": tk["raw"]})
                break
            if not is_time:
                try:
                    v = float(tk["text"])
                except ValueError:
                    probs.append({"rule": "tick-text-not-a-number", "text": tk["text"]})
                    break
                decimals = len(tk["text"].split(".")[1]) if "." in tk["text"] else 0
                half = F(1, 2) * F(10) ** (-decimals)
                want = b * (F(v) - d0)
                slack = float(half * b) + 1e-6 * geo.L + (1.0 if kind == "tikz" else 0.0)
                if abs(float(want) - tk["pos"]) > slack:
                    probs.append({"rule": "tick-text-is-not-the-value-at-its-position", "text": tk["text"], "pos": tk["pos"], "position_of_that_value": float(want)})
                    break
            else:
                lo_ms = d0 + F(tk["pos"]) / b
                if kind == "svg":
                    t = dt.datetime(1970, 1, 1) + dt.timedelta(milliseconds=round(float(lo_ms)))
                    cands = [t]
                else:
                    # the position was truncated towards zero to an integer: search the 1-unit window
                    w0 = dt.datetime(1970, 1, 1) + dt.timedelta(milliseconds=float(lo_ms) - 1)
                    w1 = dt.datetime(1970, 1, 1) + dt.timedelta(milliseconds=float(lo_ms + 1 / b) + 1)
                    cands = granularity_candidates(w0, w1)
                    if (w1 - w0) <= dt.timedelta(seconds=3):
                        k = w0.replace(microsecond=w0.microsecond // 1000 * 1000)
                        while k <= w1 and len(cands) < 4000:
                            cands.append(k)
                            k += dt.timedelta(milliseconds=1)
                if not any(time_text_consistent(tk["text"], c) for c in cands):
                    probs.append({"rule": "tick-text-is-not-the-value-at-its-position", "text": tk["text"], "pos": tk["pos"],
                                  "instant_at_position": cands[0].isoformat() if cands else None})
                    break
    # links
    if by_uid is not None and exp is not None:
        labels = res.get("labels")
        nodes_by_uid = {}
        if labels:
            for nd in labels:
                try:
                    nodes_by_uid[nd.data.data["uid"]] = nd
                except Exception:
                    pass
        pos_by_uid = {d["uid"]: float(p) for d, p in zip(data, exp)}
        for d in data:
            uid = d["uid"]
            ln = by_uid[uid]["link"]
            st = ln["start"]
            if abs(geo.along(st) - pos_by_uid[uid]) > tol_pos + 1e-7 or abs(geo.across(st)) > 1e-9:
                probs.append({"rule": "link-does-not-start-at-its-dot", "uid": uid, "link_start": st, "dot_along_axis": pos_by_uid[uid]})
                break
            prev = st
            for sg in ln["segments"]:
                if sg["from"] is not None and (abs(sg["from"][0] - prev[0]) > 1e-9 or abs(sg["from"][1] - prev[1]) > 1e-9):
                    probs.append({"rule": "link-not-continuous", "uid": uid, "gap_between": [prev, sg["from"]]})
                    break
                prev = sg["points"][-1]
            else:
                nd = nodes_by_uid.get(uid)
                if nd is not None:
                    chain = label_chain(nd)
                    Lyr = len(chain) - 1
                    kinds = "".join(s["type"] for s in ln["segments"])
                    want = "CL" * Lyr + "C"
                    if kinds != want:
                        probs.append({"rule": "link-hops", "uid": uid, "layer": Lyr, "segments": kinds, "expected": want})
                        break
                    # hop ends: along = position of the stub/label in that layer; across strictly outward
                    last_across = 0.0
                    ok = True
                    si = 0
                    for lev, item in enumerate(chain):
                        cseg = ln["segments"][si]
                        pt = cseg["points"][-1]
                        if abs(geo.along(pt) - item.currentPos) > 1e-7:
                            probs.append({"rule": "link-misses-stub", "uid": uid, "layer": lev, "link_along": geo.along(pt), "item_position": item.currentPos})
                            ok = False
                            break
                        a = geo.sign * geo.across(pt)
                        if not (a > last_across):
                            probs.append({"rule": "link-not-outward", "uid": uid, "layer": lev, "across": geo.across(pt)})
                            ok = False
                            break
                        last_across = a
                        si += 1
                        if lev < Lyr:
                            lseg = ln["segments"][si]
                            pt2 = lseg["points"][-1]
                            a2 = geo.sign * geo.across(pt2)
                            if abs(geo.along(pt2) - item.currentPos) > 1e-7 or not (a2 > last_across):
                                probs.append({"rule": "link-stub-piece", "uid": uid, "layer": lev, "point": pt2, "item_position": item.currentPos})
                                ok = False
                                break
                            last_across = a2
                            si += 1
                    if not ok:
                        break
    return probs, by_uid


# ---------------------------------------------------------------------------
# C08


def judge_c08(spec, P, by_uid, labels):
    geo = Geo(spec)
    gap = opt(spec, "layerGap")
    probs = []
    rects = []
    layer_of = {}
    if by_uid is not None and labels:
        for nd in labels:
            try:
                uid = nd.data.data["uid"]
                layer_of[by_uid[uid]["box_index"]] = nd.layerIndex
            except Exception:
                pass
    for k, b in enumerate(P.boxes):
        x0, y0 = b["origin"]
        rects.append((x0, y0, x0 + b["w"], y0 + b["h"], k))
    for r in rects:
        x0, y0, x1, y1, k = r
        near = {"down": y0, "up": -y1, "right": x0, "left": -x1}[geo.direction]
        if near < gap - 1 - 1e-9:
            probs.append({"rule": "box-too-close-to-axis-or-wrong-side", "box": [x0, y0, x1, y1], "distance": near, "layerGap": gap, "direction": geo.direction})
            return probs
    srt = sorted(rects)
    for i in range(len(srt)):
        a = srt[i]
        for j in range(i + 1, len(srt)):
            b = srt[j]
            if b[0] >= a[2]:
                break
            if a[0] < b[2] and b[0] < a[2] and a[1] < b[3] and b[1] < a[3]:
                probs.append({"rule": "boxes-intersect", "a": list(a[:4]), "b": list(b[:4]), "layers": [layer_of.get(a[4]), layer_of.get(b[4])]})
                return probs
    if layer_of:
        # boxes of a farther layer lie wholly beyond the boxes of nearer layers
        ext = {}
        for x0, y0, x1, y1, k in rects:
            if k not in layer_of:
                continue
            lo, hi = {"down": (y0, y1), "up": (-y1, -y0), "right": (x0, x1), "left": (-x1, -x0)}[geo.direction]
            e = ext.setdefault(layer_of[k], [lo, hi])
            e[0] = min(e[0], lo)
            e[1] = max(e[1], hi)
        ks = sorted(ext)
        for a, b in zip(ks, ks[1:]):
            if ext[b][0] < ext[a][1] - 1e-9:
                probs.append({"rule": "layers-not-stacked-outward", "layer": a, "reaches": ext[a][1], "next_layer": b, "starts": ext[b][0]})
                return probs
    return probs


# ---------------------------------------------------------------------------
# C09


def judge_c09(spec, PS, PT, ms, mt):
    """PS/PT: Pictures of the SVG and TikZ export of the same spec; ms/mt: match() results."""
    probs = []
    if PS.axis["orient"] != PT.axis["orient"] and None not in (PS.axis["orient"], PT.axis["orient"]):
        probs.append({"rule": "axis-orientation", "svg": PS.axis, "tikz": PT.axis})
    if abs(PS.axis["length"] - PT.axis["length"]) > 1:
        probs.append({"rule": "axis-length", "svg": PS.axis["raw"], "tikz": PT.axis["raw"]})
    if abs(PS.main_shift[0] - PT.main_shift[0]) > 1 or abs(PS.main_shift[1] - PT.main_shift[1]) > 1:
        probs.append({"rule": "main-shift", "svg": PS.main_shift, "tikz": PT.main_shift})
    if len(PS.ticks) != len(PT.ticks):
        probs.append({"rule": "tick-count", "svg": len(PS.ticks), "tikz": len(PT.ticks)})
    else:
        for a, b in zip(PS.ticks, PT.ticks):
            if a["text"] != b["text"] or a["orient"] != b["orient"] or not (abs(a["pos"] - b["pos"]) < 1 + 1e-9):
                probs.append({"rule": "tick", "svg": {"pos": a["raw"], "text": a["text"]}, "tikz": {"pos": b["raw"], "text": b["text"]}})
                break
    # dots carry no identifier: compare them as multisets, colour class by colour class (within a class the
    # sorted positions must agree to 2e-6: "%f" against str(float))
    def by_colour(P):
        out = {}
        for d in P.dots:
            out.setdefault(d["colour"], []).append(d["pos"])
        return {k: sorted(v) for k, v in out.items()}

    cs, ct = by_colour(PS), by_colour(PT)
    if len(PS.dots) != len(PT.dots):
        probs.append({"rule": "dot-count", "svg": len(PS.dots), "tikz": len(PT.dots)})
    elif {k: len(v) for k, v in cs.items()} != {k: len(v) for k, v in ct.items()}:
        probs.append({"rule": "dot-colour", "svg": {repr(k): len(v) for k, v in cs.items()}, "tikz": {repr(k): len(v) for k, v in ct.items()}})
    else:
        for k in cs:
            bad = [(x, y) for x, y in zip(cs[k], ct[k]) if abs(x - y) > 2e-6]
            if bad:
                # same colour counts but positions differ: either a dot moved or two dots swapped colours
                allpos_s = sorted(d["pos"] for d in PS.dots)
                allpos_t = sorted(d["pos"] for d in PT.dots)
                moved = any(abs(x - y) > 2e-6 for x, y in zip(allpos_s, allpos_t))
                probs.append({"rule": "dot-position" if moved else "dot-colour", "colour": k, "svg": bad[0][0], "tikz": bad[0][1]})
                break
    # same dots: SVG draws a circle of radius r, TikZ a circle node of "minimum size" = diameter
    try:
        ds = sorted(set(2 * float(d["size"]) for d in PS.dots))
        dt_ = sorted(set(float(d["size"]) for d in PT.dots))
        if ds != dt_:
            probs.append({"rule": "dot-size", "svg_diameters": ds[:4], "tikz_diameters": dt_[:4]})
    except (TypeError, ValueError):
        probs.append({"rule": "dot-size", "svg": [d["size"] for d in PS.dots][:3], "tikz": [d["size"] for d in PT.dots][:3]})
    if any(d["orient"] != PS.dots[0]["orient"] for d in PS.dots + PT.dots):
        probs.append({"rule": "dot-axis", "svg": PS.dots[0]["orient"], "tikz": [d["orient"] for d in PT.dots][:4]})
    if ms is None or mt is None:
        probs.append({"rule": "cannot-identify-boxes-in-both-documents"})
        return probs
    for uid in ms:
        a, b = ms[uid], mt[uid]
        ba, bb = a["box"], b["box"]
        # origins: both back-ends truncate to integers (the statement grants 1 unit); sizes are printed in full
        if abs(ba["origin"][0] - bb["origin"][0]) > 1 or abs(ba["origin"][1] - bb["origin"][1]) > 1:
            probs.append({"rule": "box-origin", "uid": uid, "svg": ba["raw_origin"], "tikz": bb["raw_origin"]})
            break
        if abs(ba["w"] - bb["w"]) > 1e-9 or abs(ba["h"] - bb["h"]) > 1e-9:
            probs.append({"rule": "box-size", "uid": uid, "svg": ba["raw_size"], "tikz": bb["raw_size"]})
            break
        for fld in ("fill", "border", "text_colour"):
            if ba[fld] != bb[fld]:
                probs.append({"rule": "box-" + fld, "uid": uid, "svg": ba[fld], "tikz": bb[fld]})
                break
        la, lb = a["link"], b["link"]
        if la["colour"] != lb["colour"]:
            probs.append({"rule": "link-colour", "uid": uid, "svg": la["colour"], "tikz": lb["colour"]})
            break
        def with_from(link):
            # every piece as (type, start point, printed points): in an SVG path the start of a piece is the
            # end of the previous one; TikZ prints the start of every \\draw explicitly
            out = []
            cur = tuple(link["start_raw"])
            for sg in link["segments"]:
                frm = tuple(sg["from_raw"]) if "from_raw" in sg else cur
                out.append((sg["type"], frm) + tuple(sg["raw"]))
                cur = tuple(sg["raw"][-2:])
            return out

        ra = [tuple(la["start_raw"])] + with_from(la)
        rb = [tuple(lb["start_raw"])] + with_from(lb)

        def flat(r):
            out = []
            for piece in r:
                for x in piece:
                    if isinstance(x, tuple):
                        out.extend(x)
                    else:
                        out.append(x)
            return out

        fa, fb = flat(ra), flat(rb)
        same = len(fa) == len(fb)
        if same:
            for x, y in zip(fa, fb):
                if x in ("C", "L") or y in ("C", "L"):
                    same = same and x == y
                else:
                    same = same and abs(float(x) - float(y)) <= 1e-7  # both print the points in full (8 decimals today)
        if not same:
            probs.append({"rule": "link-curve", "uid": uid, "svg": ra[:3], "tikz": rb[:3]})
            break
    return probs
