"""Reference models for C20: bijective base-26 names and hex colour parsing.
Independent of labella."""

import itertools
import re
import string

HEXDIGITS = "0123456789abcdefABCDEF"
_HEXSET = set(HEXDIGITS)


def ref_name(i):
    """i-th (0-based) non-empty string over A-Z in length-then-alphabetical order."""
    length = 1
    block = 26
    while i >= block:
        i -= block
        length += 1
        block *= 26
    out = []
    for _ in range(length):
        out.append(string.ascii_uppercase[i % 26])
        i //= 26
    return "".join(reversed(out))


def iter_names():
    """Enumerate the reference names in order, by construction (no arithmetic)."""
    length = 1
    while True:
        for tup in itertools.product(string.ascii_uppercase, repeat=length):
            yield "".join(tup)
        length += 1


def valid_code(code):
    if not isinstance(code, str):
        return False
    c = code[1:] if code[:1] == "#" else code
    return len(c) in (3, 6) and all(ch in _HEXSET for ch in c)


_HEXVAL = {ch: int(ch, 16) for ch in HEXDIGITS}


def ref_rgb(code):
    c = code[1:] if code[:1] == "#" else code
    if len(c) == 3:
        return tuple(_HEXVAL[ch] * 17 for ch in c)
    return tuple(_HEXVAL[c[k]] * 16 + _HEXVAL[c[k + 1]] for k in (0, 2, 4))


_RGBSTR = re.compile(r"^rgb\(\s*(\d+)\s*,\s*(\d+)\s*,\s*(\d+)\s*\)$")
_HTML = re.compile(r"^[0-9A-F]{6}$")


def parse_rgbstr(s):
    m = _RGBSTR.match(s) if isinstance(s, str) else None
    return tuple(int(g) for g in m.groups()) if m else None


def parse_html(s):
    if not isinstance(s, str) or not _HTML.match(s):
        return None
    return tuple(int(s[k : k + 2], 16) for k in (0, 2, 4))
