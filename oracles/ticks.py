"""Reference checks for linear ticks / nice (C13, C14) and time ticks (C14, C16).
Independent of labella."""

import math
from datetime import datetime, timedelta
from fractions import Fraction

from oracles import calendar as C


def snap125(h):
    """Nearest value of the form {1,2,5}*10^k to h>0, as (Fraction, relative error)."""
    if not (h > 0) or math.isinf(h):
        return None, None
    k = math.floor(math.log10(h))
    best = None
    for kk in (k - 1, k, k + 1):
        for mant in (1, 2, 5):
            c = Fraction(mant) * (Fraction(10) ** kk)
            err = abs(Fraction(h) - c) / c
            if best is None or err < best[1]:
                best = (c, err)
    return best


def judge_linear_ticks(a, b, m_eff, ticks, texts=None):
    """Return list of problem strings ([] = held).  m_eff: requested count (10 for default)."""
    lo, hi = (a, b) if a <= b else (b, a)
    span = hi - lo
    probs = []
    n = len(ticks)
    if not (math.floor(0.57 * m_eff) <= n <= 1.43 * m_eff + 1):
        probs.append("count %d outside [floor(0.57m)=%d, 1.43m+1=%.2f]" % (n, math.floor(0.57 * m_eff), 1.43 * m_eff + 1))
    # "up to floating-point effects at the two ends": the ticks are produced by repeated addition of the step, which can
    # accumulate half a unit in the last place of the end points per tick - far below the step on the claimed domain
    eps = max(1e-9 * span, n * math.ulp(max(abs(lo), abs(hi))))
    for t in ticks:
        if not (lo - eps <= t <= hi + eps):
            probs.append("tick %r outside the domain [%r, %r]" % (t, lo, hi))
            break
    if n <= 1:
        return probs
    for x, y in zip(ticks, ticks[1:]):
        if not (y > x):
            probs.append("ticks not strictly increasing at %r, %r" % (x, y))
            return probs
    hhat = (ticks[-1] - ticks[0]) / (n - 1)
    h, err = snap125(hhat)
    if h is None or err > Fraction(1, 100000):
        probs.append("step %r is not 1, 2 or 5 times a power of ten" % hhat)
        return probs
    hf = float(h)
    for t in ticks:
        q = Fraction(t) / h
        if abs(q - round(q)) > Fraction(1, 100000):
            probs.append("tick %r is not a multiple of the step %r" % (t, hf))
            break
    for x, y in zip(ticks, ticks[1:]):
        if abs((y - x) - hf) > 1e-5 * hf:
            probs.append("uneven spacing between %r and %r (step %r)" % (x, y, hf))
            break
    if not (ticks[0] - hf < lo + 1e-5 * hf):
        probs.append("multiple %r of the step inside the domain is missing at the low end" % (ticks[0] - hf))
    if not (ticks[-1] + hf > hi - 1e-5 * hf):
        probs.append("multiple %r of the step inside the domain is missing at the high end" % (ticks[-1] + hf))
    if texts is not None:
        if len(set(texts)) != len(texts):
            probs.append("tick texts not distinct: %r" % (texts[:12],))
        for t, s in zip(ticks, texts):
            try:
                v = float(s)
            except (TypeError, ValueError):
                probs.append("tick text %r does not read back as a number" % (s,))
                break
            if abs(v - t) > 1e-3 * hf:
                probs.append("tick text %r reads back %r, tick is %r (step %r)" % (s, v, t, hf))
                break
    return probs


def measured_step(ticks):
    if len(ticks) < 2:
        return None
    h, err = snap125((ticks[-1] - ticks[0]) / (len(ticks) - 1))
    if h is None or err > Fraction(1, 100000):
        return None
    return h


def judge_linear_nice(a, b, a2, b2, ticks_after):
    """Original domain [a,b] -> niced [a2,b2]; ticks_after: ticks(m) of the resulting domain."""
    probs = []
    if (b > a) != (b2 > a2) or a2 == b2:
        probs.append("orientation changed: [%r, %r] -> [%r, %r]" % (a, b, a2, b2))
        return probs, True
    lo, hi = min(a, b), max(a, b)
    lo2, hi2 = min(a2, b2), max(a2, b2)
    # an end that already is a multiple of the step is recomputed as k*step: allow the rounding of that product
    if lo2 - lo > 4 * math.ulp(max(abs(lo), abs(lo2))):
        probs.append("low end moved inward: %r -> %r" % (lo, lo2))
    if hi - hi2 > 4 * math.ulp(max(abs(hi), abs(hi2))):
        probs.append("high end moved inward: %r -> %r" % (hi, hi2))
    h = measured_step(ticks_after)
    if h is None:
        return probs, False  # cannot measure the step: remaining clauses not judged
    hf = float(h)
    if not (lo - lo2 < 2 * hf):
        probs.append("low end moved out by %r >= 2 steps (step %r)" % (lo - lo2, hf))
    if not (hi2 - hi < 2 * hf):
        probs.append("high end moved out by %r >= 2 steps (step %r)" % (hi2 - hi, hf))
    tenth = h / 10
    for e in (lo2, hi2):
        q = Fraction(e) / tenth
        if abs(q - round(q)) > Fraction(1, 1000000) + Fraction(abs(e)) * Fraction(4, 10**16) / tenth:
            probs.append("end %r is not a multiple of a tenth of the step %r" % (e, hf))
    return probs, True


# ---------------------------------------------------------------------------
# time ticks


def alignment_required(min_gap):
    """Coarsest-alignment rank (see calendar.coarsest_alignment) implied by a tick spacing."""
    s = min_gap.total_seconds()
    if s >= 365 * 86400:
        return 6
    if s >= 28 * 86400:
        return 5
    if s >= 86400:
        return 4
    if s >= 3600:
        return 3
    if s >= 60:
        return 2
    if s >= 1:
        return 1
    return 0


RANK_NAME = ["(sub-second)", "whole second", "whole minute", "whole hour", "midnight", "first of the month", "1 January"]


def judge_time_ticks(a, b, m_eff, ticks):
    lo, hi = (a, b) if a <= b else (b, a)
    probs = []
    n = len(ticks)
    for t in ticks:
        if not isinstance(t, datetime):
            return ["tick %r is not a datetime" % (t,)]
    for x, y in zip(ticks, ticks[1:]):
        if not (y > x):
            probs.append("ticks not strictly increasing at %s, %s" % (x.isoformat(), y.isoformat()))
            return probs
    gaps = [y - x for x, y in zip(ticks, ticks[1:])]
    subsecond = bool(gaps) and min(gaps) < timedelta(seconds=1)
    slack = C.MS if (subsecond or n < 2) else timedelta(0)
    for t in ticks:
        if not (lo - slack <= t <= hi + slack):
            probs.append("tick %s outside the domain [%s, %s]" % (t.isoformat(), lo.isoformat(), hi.isoformat()))
            break
    span_ms = (hi - lo) / C.MS
    if span_ms < m_eff:
        # one tick per millisecond
        exp = []
        t = lo if lo.microsecond % 1000 == 0 else lo + timedelta(microseconds=1000 - lo.microsecond % 1000)
        while t <= hi:
            exp.append(t)
            t += C.MS
        if ticks != exp:
            probs.append("domain shorter than m ms: expected one tick per millisecond (%d), got %d" % (len(exp), n))
        return probs
    if not (m_eff / 2.4 - 1 <= n <= 2.4 * m_eff + 1):
        probs.append("count %d outside [m/2.4-1=%.2f, 2.4m+1=%.2f]" % (n, m_eff / 2.4 - 1, 2.4 * m_eff + 1))
    if gaps:
        req = alignment_required(min(gaps))
        for t in ticks:
            if C.coarsest_alignment(t) < req:
                probs.append("tick %s is not on a %s boundary (spacing %s)" % (t.isoformat(), RANK_NAME[req], min(gaps)))
                break
        if max(gaps) > 2 * min(gaps):
            probs.append("gaps differ by more than a factor two: min %s max %s" % (min(gaps), max(gaps)))
    return probs


def judge_time_nice(a, b, a2, b2, ticks_before):
    """[a,b] -> nice -> [a2,b2]; ticks_before: ticks(m) of the original domain."""
    probs = []
    if (b > a) != (b2 > a2) or a2 == b2:
        probs.append("orientation changed: [%s, %s] -> [%s, %s]" % (a, b, a2, b2))
        return probs, True
    lo, hi = min(a, b), max(a, b)
    lo2, hi2 = min(a2, b2), max(a2, b2)
    if lo2 > lo:
        probs.append("low end moved inward: %s -> %s" % (lo.isoformat(), lo2.isoformat()))
    if hi2 < hi:
        probs.append("high end moved inward: %s -> %s" % (hi.isoformat(), hi2.isoformat()))
    gaps = [y - x for x, y in zip(ticks_before, ticks_before[1:])]
    if not gaps:
        return probs, False
    g = max(gaps)
    if not (lo - lo2 < 2 * g):
        probs.append("low end moved out by %s >= 2 tick steps (%s)" % (lo - lo2, g))
    if not (hi2 - hi < 2 * g):
        probs.append("high end moved out by %s >= 2 tick steps (%s)" % (hi2 - hi, g))
    req = alignment_required(min(gaps))
    for e in (lo2, hi2):
        if C.coarsest_alignment(e) < req:
            probs.append("niced end %s is not on a %s boundary (tick spacing %s)" % (e.isoformat(), RANK_NAME[req], min(gaps)))
    # weekly ticks (all of them Sundays, 7 days apart): "aligned at least as coarsely as the ticks" means a week boundary
    if not probs and all(g_ == timedelta(days=7) for g_ in gaps) and all(t.isoweekday() == 7 for t in ticks_before):
        for e in (lo2, hi2):
            if e.isoweekday() != 7:
                probs.append("niced end %s is not on a week boundary (a Sunday) although the ticks are weekly Sundays" % e.isoformat())
    return probs, True
