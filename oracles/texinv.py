"""Reference model for C19: reads TeX accent commands back as combining marks and
aligns the converted text with the original.  Independent of labella."""

import unicodedata

# The documented 15-accent table (combining mark -> TeX accent command letter).
ACCENTS = {
    0x0300: "`",
    0x0301: "'",
    0x0302: "^",
    0x0308: '"',
    0x030B: "H",
    0x0303: "~",
    0x0327: "c",
    0x0328: "k",
    0x0304: "=",
    0x0331: "b",
    0x0307: ".",
    0x0323: "d",
    0x030A: "r",
    0x0306: "u",
    0x030C: "v",
}
CMD2MARK = {v: chr(k) for k, v in ACCENTS.items()}
AMBIGUOUS = set("\\{}")


class Malformed(Exception):
    pass


def tokenize(o, p=0, depth=0):
    """Parse converted text into tokens: ('lit', ch) | ('cmd', accent, [tokens]).
    Returns (tokens, next_pos).  At depth > 0 stops at the closing brace."""
    toks = []
    n = len(o)
    while p < n:
        ch = o[p]
        if ch == "\\":
            if p + 2 < n + 0 and p + 1 < n and o[p + 1] in CMD2MARK and p + 2 < n and o[p + 2] == "{":
                inner, q = tokenize(o, p + 3, depth + 1)
                if q >= n or o[q] != "}":
                    raise Malformed("unterminated command at %d" % p)
                toks.append(("cmd", o[p + 1], inner))
                p = q + 1
                continue
            raise Malformed("backslash that is not a known accent command at %d" % p)
        if ch == "}":
            if depth == 0:
                raise Malformed("unbalanced closing brace at %d" % p)
            return toks, p
        if ch == "{":
            raise Malformed("bare opening brace at %d" % p)
        toks.append(("lit", ch))
        p += 1
    if depth:
        raise Malformed("unterminated command")
    return toks, p


def invert(toks):
    out = []
    for t in toks:
        if t[0] == "lit":
            out.append(t[1])
        else:
            out.append(invert(t[2]))
            out.append(CMD2MARK[t[1]])
    return "".join(out)


def _match_seq(toks, s, starts):
    cur = starts
    for t in toks:
        nxt = set()
        for i in cur:
            nxt |= _match_tok(t, s, i)
        cur = nxt
        if not cur:
            break
    return cur


def _match_tok(t, s, i):
    if t[0] == "lit":
        return {i + 1} if i < len(s) and s[i] == t[1] else set()
    mark = CMD2MARK[t[1]]
    inner = t[2]
    res = set()
    if i < len(s):
        d = unicodedata.decomposition(s[i])
        if d and not d.startswith("<"):
            parts = d.split()
            if len(parts) == 2 and chr(int(parts[1], 16)) == mark:
                b = chr(int(parts[0], 16))
                if len(b) in _match_seq(inner, b, {0}):
                    res.add(i + 1)
    for j in _match_seq(inner, s, {i}):
        if j < len(s) and s[j] == mark:
            if j == i and i > 0 and not inner:
                # an accent command with an empty argument is only acceptable for a mark that has no
                # preceding character to sit on (start of the text); elsewhere the accent must be applied
                # to the base character it follows
                continue
            res.add(j + 1)
    return res


def count_cmds(toks):
    return sum(1 + count_cmds(t[2]) for t in toks if t[0] == "cmd")


def judge(s, o):
    """Return (ok, reason, n_commands).  s: original text, o: converted text.
    Precondition: s contains none of the AMBIGUOUS characters."""
    if not isinstance(o, str):
        return False, "result is not a string: %r" % (o,), 0
    if o == s:
        return True, None, 0
    if s.isascii():
        return False, "ASCII text changed", 0
    try:
        toks, _ = tokenize(o)
    except Malformed as e:
        return False, "output does not tokenise: %s" % e, 0
    if len(s) not in _match_seq(toks, s, {0}):
        return False, "output does not align with input (accent on wrong base / dropped or altered character)", count_cmds(toks)
    inv = invert(toks)
    if unicodedata.normalize("NFD", inv) != unicodedata.normalize("NFD", s):
        return False, "read-back not canonically equivalent", count_cmds(toks)
    return True, None, count_cmds(toks)
