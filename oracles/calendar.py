"""Reference calendar for C14/C16/C17: built only on datetime, timedelta and
calendar.  Independent of labella."""

import calendar as _cal
from datetime import datetime, timedelta

UNITS = ("second", "minute", "hour", "day", "week", "month", "year")
LO = datetime(1900, 1, 1)
HI = datetime(2201, 1, 1)
MS = timedelta(milliseconds=1)


def in_domain(t):
    return isinstance(t, datetime) and t.tzinfo is None and LO <= t < HI and t.microsecond % 1000 == 0


def floor(unit, t):
    if unit == "second":
        return t.replace(microsecond=0)
    if unit == "minute":
        return t.replace(second=0, microsecond=0)
    if unit == "hour":
        return t.replace(minute=0, second=0, microsecond=0)
    d = datetime(t.year, t.month, t.day)
    if unit == "day":
        return d
    if unit == "week":
        return d - timedelta(days=t.isoweekday() % 7)
    if unit == "month":
        return datetime(t.year, t.month, 1)
    if unit == "year":
        return datetime(t.year, 1, 1)
    raise ValueError(unit)


def is_boundary(unit, t):
    return floor(unit, t) == t


_FIXED = {
    "second": timedelta(seconds=1),
    "minute": timedelta(minutes=1),
    "hour": timedelta(hours=1),
    "day": timedelta(days=1),
    "week": timedelta(days=7),
}


def step(unit, b, k):
    """k-th boundary after boundary b (k >= 0)."""
    if unit in _FIXED:
        return b + k * _FIXED[unit]
    if unit == "month":
        m = b.month - 1 + k
        return datetime(b.year + m // 12, m % 12 + 1, 1)
    if unit == "year":
        return datetime(b.year + k, 1, 1)
    raise ValueError(unit)


def ceil(unit, t):
    f = floor(unit, t)
    return t if f == t else step(unit, f, 1)


def round_(unit, t):
    d0 = floor(unit, t)
    d1 = step(unit, d0, 1)
    return d0 if (t - d0) < (d1 - t) else d1


def number(unit, b):
    if unit == "second":
        return b.second
    if unit == "minute":
        return b.minute
    if unit == "hour":
        return b.hour
    if unit == "day":
        return b.day - 1
    if unit == "month":
        return b.month - 1
    if unit == "year":
        return b.year
    raise ValueError(unit)


def boundaries(unit, start, stop):
    """All boundaries of the unit in [start, stop), increasing."""
    out = []
    b = ceil(unit, start)
    while b < stop:
        out.append(b)
        b = step(unit, b, 1)
    return out


def range_(unit, start, stop, k):
    bs = boundaries(unit, start, stop)
    if k > 1:
        return [b for b in bs if number(unit, b) % k == 0]
    return bs


def days_in_month(y, m):
    return _cal.monthrange(y, m)[1]


def coarsest_alignment(t):
    """Rank of the coarsest calendar boundary t sits on:
    0 none (sub-second), 1 second, 2 minute, 3 hour, 4 midnight, 5 first of month, 6 1 January."""
    if t.microsecond:
        return 0
    if t.second:
        return 1
    if t.minute:
        return 2
    if t.hour:
        return 3
    if t.day != 1:
        return 4
    if t.month != 1:
        return 5
    return 6
