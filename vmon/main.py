import sys

from vmon.core import main

if __name__ == "__main__":
    sys.exit(main())
