"""H10: monitor on Timeline.__init__ / TimelineSVG.export / TimelineTex.export.

Keeps a weak registry of live timelines and, around every operation on one
timeline, digests the option state reachable from every OTHER live timeline
(scale domain/range, nested option dicts): a change is an interference event
(C10: "timelines share nothing unless the caller passes them the same objects").
"""

import weakref
from collections import Counter

from vmon.hooks import Patches


def option_digest(tl):
    out = []
    try:
        opts = tl.options
    except Exception:
        return ("no-options",)
    for k in sorted(opts):
        v = opts[k]
        try:
            if hasattr(v, "domain") and hasattr(v, "range") and callable(v.domain):
                out.append((k, type(v).__name__, repr(v.domain()), repr(v.range())))
            elif isinstance(v, dict):
                out.append((k, tuple(sorted((str(a), repr(b) if not callable(b) else "fn") for a, b in v.items()))))
            elif isinstance(v, (list, tuple)):
                out.append((k, tuple(repr(x) for x in v)))
            elif callable(v):
                out.append((k, "fn"))
            else:
                out.append((k, repr(v)))
        except Exception as e:
            out.append((k, "exc:" + type(e).__name__))
    try:
        out.append(("items", tuple((repr(it.time), it.width, it.text) for it in tl.items)))
    except Exception:
        pass
    return tuple(out)


class ExportMonitor(object):
    def __init__(self, keep=20):
        self.events = Counter()
        self.live = weakref.WeakSet()
        self.violations = []
        self.n_violations = 0
        self.keep = keep
        self.p = Patches()
        self.raised = []
        self.depth = 0

    def reset(self):
        self.live = weakref.WeakSet()

    def install(self):
        import labella.timeline as T

        mon = self

        def around(name):
            def on_call(orig, args, kwargs):
                tl = args[0]
                if mon.depth:
                    return orig(*args, **kwargs)
                others = [(x, option_digest(x)) for x in list(mon.live) if x is not tl]
                mon.depth += 1
                try:
                    r = orig(*args, **kwargs)
                except BaseException as e:
                    mon.events[name + ".raised"] += 1
                    if len(mon.raised) < 50:
                        mon.raised.append((name, type(e).__name__, str(e)[:200]))
                    raise
                finally:
                    mon.depth -= 1
                    mon.events[name] += 1
                    for x, dg in others:
                        mon.events["noninterference"] += 1
                        now = option_digest(x)
                        if now != dg:
                            mon.n_violations += 1
                            if len(mon.violations) < mon.keep:
                                diff = [(a, b) for a, b in zip(dg, now) if a != b][:3]
                                mon.violations.append({"op": name, "changed_in_other_timeline": repr(diff)[:600]})
                if name == "Timeline.__init__":
                    mon.live.add(tl)
                return r

            return on_call

        self.p.wrap(T.Timeline, "__init__", around("Timeline.__init__"))
        self.p.wrap(T.TimelineSVG, "export", around("TimelineSVG.export"))
        self.p.wrap(T.TimelineTex, "export", around("TimelineTex.export"))
        return self

    def uninstall(self):
        self.p.uninstall()
