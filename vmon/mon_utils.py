"""H9: monitors on labella.utils.int2name / hex2rgb / hex2rgbstr / hex2html
(and their `from … import` re-bindings in labella.timeline)."""

from oracles import names as N
from vmon.hooks import Patches


class UtilsMonitor(object):
    def __init__(self, keep=20):
        self.calls = {"int2name": 0, "hex2rgb": 0, "hex2rgbstr": 0, "hex2html": 0}
        self.out_of_domain = 0
        self.violations = []
        self.n_violations = 0
        self.keep = keep
        self.p = Patches()
        self.last = {}  # function -> (arg, result) of the most recent call

    def _viol(self, fn, arg, got, expected):
        self.n_violations += 1
        if len(self.violations) < self.keep:
            self.violations.append({"fn": fn, "arg": arg, "got": repr(got), "expected": repr(expected)})

    def install(self):
        import labella.timeline as T
        import labella.utils as U

        mon = self

        def on_int2name(orig, args, kwargs):
            try:
                r = orig(*args, **kwargs)
            except Exception as e:
                i = args[0] if args else kwargs.get("i")
                if isinstance(i, int) and i >= 0:
                    mon.calls["int2name"] += 1
                    mon._viol("int2name", i, "raised %s: %s" % (type(e).__name__, e), N.ref_name(i))
                raise
            i = args[0] if args else kwargs.get("i")
            if isinstance(i, int) and not isinstance(i, bool) and i >= 0:
                mon.calls["int2name"] += 1
                exp = N.ref_name(i)
                if r != exp:
                    mon._viol("int2name", i, r, exp)
            else:
                mon.out_of_domain += 1
            return r

        def make_colour(fname, parse, describe):
            def on_call(orig, args, kwargs):
                code = args[0] if args else kwargs.get("code")
                ok = N.valid_code(code)
                try:
                    r = orig(*args, **kwargs)
                except Exception as e:
                    if ok:
                        mon.calls[fname] += 1
                        mon._viol(fname, code, "raised %s: %s" % (type(e).__name__, e), describe(N.ref_rgb(code)))
                    raise
                if ok:
                    mon.calls[fname] += 1
                    exp = N.ref_rgb(code)
                    got = parse(r)
                    if got != exp:
                        mon._viol(fname, code, r, describe(exp))
                else:
                    mon.out_of_domain += 1
                return r

            return on_call

        def parse_triple(r):
            try:
                t = tuple(r)
            except TypeError:
                return None
            if len(t) == 3 and all(isinstance(x, int) and not isinstance(x, bool) for x in t):
                return t
            return None

        self.p.wrap(U, "int2name", on_int2name)
        self.p.wrap(U, "hex2rgb", make_colour("hex2rgb", parse_triple, lambda t: t))
        self.p.wrap(U, "hex2rgbstr", make_colour("hex2rgbstr", N.parse_rgbstr, lambda t: "rgb(%d, %d, %d)" % t))
        self.p.wrap(U, "hex2html", make_colour("hex2html", N.parse_html, lambda t: "%02X%02X%02X" % t))
        # names bound by `from labella.utils import …` in timeline.py
        for nm in ("int2name", "hex2rgbstr", "hex2html"):
            self.p.rebind(T, nm, getattr(U, nm))
        return self

    def uninstall(self):
        self.p.uninstall()
