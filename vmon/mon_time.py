"""H7: monitor on labella.d3_time.d3_time_interval methods (all seven calendar
units share the class, so one set of wrappers observes them all)."""

from datetime import datetime

from oracles import calendar as C
from vmon.hooks import Patches


def _integral(k):
    if isinstance(k, bool):
        return None
    if isinstance(k, int):
        return k
    if isinstance(k, float) and k == int(k):
        return int(k)
    return None


class CalendarMonitor(object):
    OPS = ("floor", "ceil", "round", "offset", "range", "__call__")

    def __init__(self, keep=30):
        self.calls = {}  # (unit, op) -> judged calls
        self.out_of_scope = 0
        self.violations = []
        self.n_violations = 0
        self.keep = keep
        self.p = Patches()
        self.unit_of = {}
        self.depth = 0
        self.direct = 0  # calls made at depth 0 (by the driver or by library code outside d3_time_interval)
        self.nested = 0

    def _viol(self, unit, op, args, got, expected):
        self.n_violations += 1
        if len(self.violations) < self.keep:
            self.violations.append({"unit": unit, "op": op, "args": [a.isoformat() if isinstance(a, datetime) else a for a in args],
                                    "got": _fmt(got), "expected": _fmt(expected)})

    def install(self):
        import labella.d3_time as D

        mon = self
        for u in C.UNITS:
            self.unit_of[id(D.d3_time[u])] = u

        def make(op):
            def on_call(orig, args, kwargs):
                self_ = args[0]
                unit = mon.unit_of.get(id(self_))
                a = args[1:]
                if unit is None or kwargs:
                    mon.out_of_scope += 1
                    return orig(*args, **kwargs)
                mon.depth += 1
                if mon.depth == 1:
                    mon.direct += 1
                else:
                    mon.nested += 1
                try:
                    try:
                        r = orig(*args, **kwargs)
                    except Exception as e:
                        exp = mon.expect(unit, op, a)
                        if exp is not NotImplemented:
                            mon._count(unit, op)
                            mon._viol(unit, op, a, "raised %s: %s" % (type(e).__name__, e), exp)
                        raise
                finally:
                    mon.depth -= 1
                try:
                    exp = mon.expect(unit, op, a)
                    if exp is NotImplemented:
                        mon.out_of_scope += 1
                        return r
                    mon._count(unit, op)
                    if not mon.agree(unit, op, a, r, exp):
                        mon._viol(unit, op, a, r, exp)
                except Exception:  # the oracle must never disturb the library
                    mon.oracle_errors = getattr(mon, "oracle_errors", 0) + 1
                return r

            return on_call

        for op in self.OPS:
            self.p.wrap(D.d3_time_interval, op, make(op))
        return self

    def _count(self, unit, op):
        k = (unit, "floor" if op == "__call__" else op)
        self.calls[k] = self.calls.get(k, 0) + 1

    def expect(self, unit, op, a):
        """Reference result, or NotImplemented when the call is outside the property's domain."""
        try:
            if op in ("floor", "ceil", "round", "__call__"):
                if len(a) != 1 or not C.in_domain(a[0]):
                    return NotImplemented
                t = a[0]
                if op in ("floor", "__call__"):
                    return C.floor(unit, t)
                if op == "ceil":
                    return C.ceil(unit, t)
                return C.round_(unit, t)
            if op == "offset":
                if len(a) != 2 or not C.in_domain(a[0]):
                    return NotImplemented
                k = _integral(a[1])
                if k is None or k < 0 or not C.is_boundary(unit, a[0]):
                    return NotImplemented
                e = C.step(unit, a[0], k)
                return e if e < C.HI else NotImplemented
            if op == "range":
                if len(a) != 3 or not (C.in_domain(a[0]) and C.in_domain(a[1])):
                    return NotImplemented
                k = _integral(a[2])
                if k is None or k < 1:
                    return NotImplemented
                if unit == "week" and k > 1:
                    return ("subseq", C.boundaries(unit, a[0], a[1]))
                return C.range_(unit, a[0], a[1], k)
        except (OverflowError, ValueError):
            return NotImplemented
        return NotImplemented

    def agree(self, unit, op, a, r, exp):
        if isinstance(exp, tuple) and exp and exp[0] == "subseq":
            try:
                r = list(r)
            except TypeError:
                return False
            it = iter(exp[1])
            return all(any(x == y for y in it) for x in r)
        if op == "range":
            try:
                return list(r) == exp
            except TypeError:
                return False
        return isinstance(r, datetime) and r == exp

    def uninstall(self):
        self.p.uninstall()


def _fmt(x):
    if isinstance(x, datetime):
        return x.isoformat()
    if isinstance(x, (list, tuple)):
        xs = [_fmt(y) for y in x]
        return xs if len(xs) <= 12 else xs[:6] + ["... %d items ..." % len(xs)] + xs[-3:]
    return x if isinstance(x, (int, float, str, type(None))) else repr(x)
