"""Attribute-replacement machinery: passive wrappers around the real functions of
the repository.  A wrapper never alters arguments or results and never raises
into library code (sole exception: the logical step budget, a BaseException).
"""

import functools
import inspect


class MissingHook(Exception):
    pass


class Patches(object):
    def __init__(self):
        self._undo = []

    def wrap(self, owner, name, on_call):
        """Replace owner.name by a wrapper.

        on_call(orig, args, kwargs) must call orig(*args, **kwargs) exactly once
        and return its result (or re-raise its exception) unchanged.
        """
        if isinstance(owner, type):
            if name not in owner.__dict__:
                raise MissingHook("%s.%s" % (owner.__name__, name))
            raw = owner.__dict__[name]
        else:
            if not hasattr(owner, name):
                raise MissingHook("%s.%s" % (getattr(owner, "__name__", owner), name))
            raw = getattr(owner, name)
        kind = None
        fn = raw
        if isinstance(raw, classmethod):
            kind, fn = classmethod, raw.__func__
        elif isinstance(raw, staticmethod):
            kind, fn = staticmethod, raw.__func__

        def wrapper(*args, **kwargs):
            return on_call(fn, args, kwargs)

        try:
            functools.update_wrapper(wrapper, fn)
        except Exception:
            pass
        try:
            wrapper.__signature__ = inspect.signature(fn)
        except Exception:
            pass
        wrapper.__vmon_orig__ = fn
        new = kind(wrapper) if kind else wrapper
        setattr(owner, name, new)
        self._undo.append((owner, name, raw))
        return fn

    def rebind(self, owner, name, new):
        if not hasattr(owner, name):
            raise MissingHook("%s.%s" % (getattr(owner, "__name__", owner), name))
        raw = owner.__dict__[name] if isinstance(owner, type) else getattr(owner, name)
        setattr(owner, name, new)
        self._undo.append((owner, name, raw))

    def uninstall(self):
        for owner, name, raw in reversed(self._undo):
            setattr(owner, name, raw)
        self._undo = []
