"""Logical step budget for tick generation, usable without the H6 monitor: on a changed tree a wrong tick unit over a
long span would build billions of instants (15 min, then killed by the OS).  One outermost TimeScale.ticks()/nice() call
may take at most STEP_BUDGET calendar steps (interval._step / milli2dt calls) - 14x what the largest admissible tick
list needs; beyond that TickBudgetExceeded (an ordinary Exception) is raised at that call's boundary."""

from vmon.core import BudgetExceeded
from vmon.hooks import Patches

STEP_BUDGET = 100000
_installed = {"p": None, "hits": 0}


class TickBudgetExceeded(Exception):
    pass


def ensure_tick_budget():
    """Idempotent, once per process; silently does nothing for pieces a changed tree no longer has."""
    if _installed["p"] is not None:
        return _installed
    import labella.d3_time as D
    import labella.scale as S

    p = Patches()
    st = {"steps": 0, "depth": 0}

    def boundary(name):
        def on_call(orig, args, kwargs):
            if st["depth"]:
                return orig(*args, **kwargs)
            st["steps"] = 0
            st["depth"] = 1
            try:
                return orig(*args, **kwargs)
            except BudgetExceeded as e:
                _installed["hits"] += 1
                raise TickBudgetExceeded("%s%s: %s" % ("interval." if name == "range" else "TimeScale.", name, e))
            finally:
                st["depth"] = 0

        return on_call

    def stepper(orig, args, kwargs):
        st["steps"] += 1
        if st["depth"] and st["steps"] > STEP_BUDGET:
            raise BudgetExceeded("more than %d calendar steps in one call" % STEP_BUDGET)
        return orig(*args, **kwargs)

    try:
        cls = S.TimeScale
        for nm in ("ticks", "nice"):
            if nm in cls.__dict__:
                p.wrap(cls, nm, boundary(nm))
        # a direct interval.range() call is a boundary of its own (seeded/C18o: a step that stops advancing inside a
        # skipped hour makes the enumeration loop forever outside any TimeScale call); wrapped at class level so that it
        # chains with the calendar monitor's class-level hooks in either order
        ivcls = set(type(iv) for iv in getattr(D, "d3_time", {}).values() if hasattr(iv, "_step"))
        for c in ivcls:
            if "range" in c.__dict__:
                p.wrap(c, "range", boundary("range"))
        seen = set()
        for iv in list(getattr(D, "d3_time", {}).values()):
            if hasattr(iv, "_step") and id(iv) not in seen:
                seen.add(id(iv))
                p.wrap(iv, "_step", stepper)
        for mod in (D, S):
            if hasattr(mod, "milli2dt"):
                p.wrap(mod, "milli2dt", stepper)
    except Exception:
        pass
    _installed["p"] = p
    return _installed
