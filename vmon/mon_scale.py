"""H5 / H6: monitors on labella.scale.LinearScale and TimeScale.

LinearMonitor keeps a weak registry of every live scale it has seen constructed
and, at every mutator (domain/range/clamp/nice/copy/__init__), checks
  (5) end-point invariant: obj(obj.domain()[i]) == obj.range()[i] for every live object
  (6) non-interference: the op changed the observable signature of no *other* live object
and, at every evaluation (__call__/scale/invert), affinity against the end points
the object itself reports (exact rational reference).
"""

import math
import weakref
from collections import Counter
from datetime import datetime, timedelta
from fractions import Fraction

from vmon.hooks import Patches

EPOCH = datetime(1970, 1, 1)


def _num(x):
    return isinstance(x, (int, float)) and not isinstance(x, bool) and math.isfinite(x)


def _pair(v):
    return isinstance(v, (list, tuple)) and len(v) == 2 and _num(v[0]) and _num(v[1])


class LinearMonitor(object):
    def __init__(self, keep=30):
        self.events = Counter()
        self.violations = []
        self.n_violations = 0
        self.keep = keep
        self.live = weakref.WeakSet()
        self.p = Patches()
        self.orig = {}
        self.depth = 0

    def reset(self):
        self.live = weakref.WeakSet()

    def _viol(self, kind, detail):
        self.n_violations += 1
        if len(self.violations) < self.keep:
            self.violations.append({"kind": kind, "detail": detail})

    # -- observation helpers (use the original, unwrapped functions) --------
    def _dom(self, o):
        return self.orig["domain"](o)

    def _rng(self, o):
        return self.orig["range"](o)

    def _eval(self, o, x):
        return self.orig["__call__"](o, x)

    def signature(self, o):
        try:
            d, r = self._dom(o), self._rng(o)
            sig = [tuple(d), tuple(r), bool(self.orig["clamp"](o))]
            if _pair(d) and _pair(r) and d[0] != d[1]:
                for x in (d[0], d[1], (d[0] + d[1]) / 2, d[0] - (d[1] - d[0])):
                    sig.append(self._eval(o, x))
            return tuple(sig)
        except Exception as e:
            return ("exc", type(e).__name__)

    def check_endpoints(self, o, after):
        try:
            d, r = self._dom(o), self._rng(o)
        except Exception:
            return
        if not (_pair(d) and _pair(r)) or d[0] == d[1]:
            return
        self.events["endpoint_invariant"] += 1
        try:
            y0, y1 = self._eval(o, d[0]), self._eval(o, d[1])
        except Exception as e:
            self._viol("endpoint", {"after": after, "domain": list(d), "range": list(r), "raised": "%s: %s" % (type(e).__name__, e)})
            return
        if y0 != r[0] or y1 != r[1]:
            self._viol("endpoint", {"after": after, "reported_domain": list(d), "reported_range": list(r), "scale(d0)": y0, "scale(d1)": y1})

    def install(self):
        import labella.scale as S

        cls = S.LinearScale
        mon = self
        for nm in ("domain", "range", "clamp", "__call__", "scale", "invert", "copy", "nice", "__init__"):
            if nm not in cls.__dict__:
                from vmon.hooks import MissingHook

                raise MissingHook("LinearScale.%s" % nm)
            self.orig[nm] = cls.__dict__[nm]

        def mutator(name, is_setter):
            def on_call(orig, args, kwargs):
                o = args[0]
                setting = True
                if is_setter:
                    val = args[1] if len(args) > 1 else kwargs.get("x")
                    setting = val is not None
                if not setting or mon.depth:
                    return orig(*args, **kwargs)
                others = [(x, mon.signature(x)) for x in list(mon.live) if x is not o]
                mon.depth += 1
                try:
                    r = orig(*args, **kwargs)
                finally:
                    mon.depth -= 1
                mon.events["mutator." + name] += 1
                mon.after_op(o, name, others)
                return r

            return on_call

        def on_init(orig, args, kwargs):
            o = args[0]
            others = [(x, mon.signature(x)) for x in list(mon.live) if x is not o] if not mon.depth else []
            r = orig(*args, **kwargs)
            mon.live.add(o)
            mon.events["init"] += 1
            if not mon.depth:
                mon.after_op(o, "__init__", others)
            return r

        def on_copy(orig, args, kwargs):
            o = args[0]
            if mon.depth:
                return orig(*args, **kwargs)
            before = mon.signature(o)
            others = [(x, mon.signature(x)) for x in list(mon.live) if x is not o]
            mon.depth += 1
            try:
                c = orig(*args, **kwargs)
            finally:
                mon.depth -= 1
            mon.events["copy"] += 1
            if isinstance(c, cls):
                mon.live.add(c)
                if mon.signature(c) != before:
                    mon._viol("copy-differs", {"original": repr(before), "copy": repr(mon.signature(c))})
            mon.after_op(o, "copy", others + [(o, before)])
            return c

        def evaluator(name):
            def on_call(orig, args, kwargs):
                o = args[0]
                x = args[1] if len(args) > 1 else None
                try:
                    y = orig(*args, **kwargs)
                except Exception as e:
                    if _num(x) and not mon.depth:
                        mon.judge_eval(o, name, x, None, e)
                    raise
                if _num(x):
                    mon.judge_eval(o, name, x, y, None)
                return y

            return on_call

        self.p.wrap(cls, "__init__", on_init)
        self.p.wrap(cls, "domain", mutator("domain", True))
        self.p.wrap(cls, "range", mutator("range", True))
        self.p.wrap(cls, "clamp", mutator("clamp", True))
        self.p.wrap(cls, "nice", mutator("nice", False))
        self.p.wrap(cls, "copy", on_copy)
        self.p.wrap(cls, "__call__", evaluator("__call__"))
        self.p.wrap(cls, "scale", evaluator("scale"))
        self.p.wrap(cls, "invert", evaluator("invert"))
        return self

    def after_op(self, o, name, others):
        for x in list(self.live):
            self.check_endpoints(x, name)
        for x, sig in others:
            self.events["noninterference"] += 1
            now = self.signature(x)
            if now != sig:
                self._viol("interference", {"op": name, "on": "another scale object", "before": repr(sig), "after": repr(now)})

    def judge_eval(self, o, name, x, y, exc):
        try:
            d, r = self._dom(o), self._rng(o)
            clamp = bool(self.orig["clamp"](o))
        except Exception:
            return
        if not (_pair(d) and _pair(r)):
            return
        src, dst = (d, r) if name != "invert" else (r, d)
        if src[0] == src[1]:
            return  # degenerate: outside C12's domain
        self.events["eval." + name] += 1
        if exc is not None:
            self._viol("eval-raised", {"op": name, "x": x, "domain": list(d), "range": list(r), "raised": "%s: %s" % (type(exc).__name__, exc)})
            return
        if not _num(y):
            self._viol("eval-nonfinite", {"op": name, "x": x, "y": repr(y), "domain": list(d), "range": list(r)})
            return
        t = (Fraction(x) - Fraction(src[0])) / (Fraction(src[1]) - Fraction(src[0]))
        if clamp:
            t = min(Fraction(1), max(Fraction(0), t))
        exp = Fraction(dst[0]) + t * (Fraction(dst[1]) - Fraction(dst[0]))
        tol = Fraction(1, 10**9) * (abs(Fraction(dst[0])) + abs(Fraction(dst[1]))) * (1 + abs(t))
        if abs(Fraction(y) - exp) > tol:
            self._viol("not-affine", {"op": name, "x": x, "y": y, "expected": float(exp), "reported_domain": list(d), "reported_range": list(r), "clamp": clamp})
        if clamp:
            lo, hi = min(dst), max(dst)
            if not (lo - math.ulp(lo) <= y <= hi + math.ulp(hi)):  # one unit in the last place: rounding of a(1-t)+bt
                self._viol("clamp-escape", {"op": name, "x": x, "y": y, "range": list(dst)})

    def uninstall(self):
        self.p.uninstall()


class TickBudgetExceeded(Exception):
    """Raised at the ticks()/nice() boundary when one call took more calendar steps than any tick list the
    statement allows could need (logical step budget: a wrong tick unit over a long span would otherwise
    build billions of instants)."""


class TimeMonitor(object):
    """H6: records TimeScale calls; judges __call__/invert online against exact
    timedelta arithmetic on the domain/range the object reports; records which
    tick method the library chose (path coverage for C16)."""

    def __init__(self, keep=30):
        self.events = Counter()
        self.paths = Counter()
        self.violations = []
        self.n_violations = 0
        self.keep = keep
        self.p = Patches()
        self.orig = {}

    def _viol(self, kind, detail):
        self.n_violations += 1
        if len(self.violations) < self.keep:
            self.violations.append({"kind": kind, "detail": detail})

    def install(self):
        import labella.scale as S

        cls = S.TimeScale
        mon = self
        for nm in ("domain", "range", "__call__", "invert", "tickMethod", "ticks", "nice", "clamp"):
            if nm not in cls.__dict__:
                from vmon.hooks import MissingHook

                raise MissingHook("TimeScale.%s" % nm)
            self.orig[nm] = cls.__dict__[nm]
        methods = S.d3_time_scaleLocalMethods
        msobj = S.d3_time_scaleMilliseconds

        def on_tickmethod(orig, args, kwargs):
            r = orig(*args, **kwargs)
            try:
                hit = None
                for i, mth in enumerate(methods):
                    if r is mth:
                        hit = "row%02d" % i
                        break
                if hit is None and isinstance(r, (list, tuple)) and len(r) == 2:
                    if r[0] is msobj:
                        hit = "milliseconds"
                    elif r[0] is methods[-1][0]:
                        hit = "multi-year"
                mon.paths["tickMethod." + (hit or "other")] += 1
            except Exception:
                pass
            return r

        def on_eval(name):
            def on_call(orig, args, kwargs):
                o = args[0]
                x = args[1] if len(args) > 1 else None
                try:
                    y = orig(*args, **kwargs)
                except Exception as e:
                    mon.judge(o, name, x, None, e)
                    raise
                mon.judge(o, name, x, y, None)
                return y

            return on_call

        from vmon.core import BudgetExceeded

        mon._steps = 0
        mon._depth = 0
        mon.step_budget = 100000  # <= 2.4*100+1 ticks, each at most a few hundred unit steps apart

        def counter(name):
            def on_call(orig, args, kwargs):
                mon.events[name] += 1
                if mon._depth:
                    return orig(*args, **kwargs)  # nice() asking for ticks(): one budget for the outer call
                mon._steps = 0
                mon._depth = 1
                try:
                    return orig(*args, **kwargs)
                except BudgetExceeded as e:
                    mon.events["step_budget_exceeded"] += 1
                    raise TickBudgetExceeded("TimeScale.%s: %s" % (name, e))
                finally:
                    mon._depth = 0

            return on_call

        def stepper(orig, args, kwargs):
            mon._steps += 1
            if mon._depth and mon._steps > mon.step_budget:
                raise BudgetExceeded("more than %d calendar steps in one call" % mon.step_budget)
            return orig(*args, **kwargs)

        # the budget is a safety net: units that a changed tree no longer has are simply not counted
        import labella.d3_time as D

        seen = set()
        for iv in list(getattr(D, "d3_time", {}).values()):
            if hasattr(iv, "_step") and id(iv) not in seen:
                seen.add(id(iv))
                self.p.wrap(iv, "_step", stepper)
        for mod in (D, S):
            if hasattr(mod, "milli2dt"):
                self.p.wrap(mod, "milli2dt", stepper)

        self.p.wrap(cls, "tickMethod", on_tickmethod)
        self.p.wrap(cls, "__call__", on_eval("__call__"))
        self.p.wrap(cls, "invert", on_eval("invert"))
        self.p.wrap(cls, "ticks", counter("ticks"))
        self.p.wrap(cls, "nice", counter("nice"))
        return self

    def judge(self, o, name, x, y, exc):
        try:
            d = self.orig["domain"](o)
            r = self.orig["range"](o)
            clamp = bool(self.orig["clamp"](o))
        except Exception:
            return
        if not (isinstance(d, list) and len(d) == 2 and all(isinstance(t, datetime) for t in d) and _pair(r)):
            return
        if clamp:
            return
        if name == "__call__":
            if not isinstance(x, datetime) or x.tzinfo is not None or d[0] == d[1]:
                return
            self.events["eval.__call__"] += 1
            if exc is not None:
                self._viol("eval-raised", {"op": name, "x": x.isoformat(), "raised": "%s: %s" % (type(exc).__name__, exc)})
                return
            if not _num(y):
                self._viol("eval-nonfinite", {"op": name, "x": x.isoformat(), "y": repr(y)})
                return
            us = timedelta(microseconds=1)
            t = Fraction((x - d[0]) // us, (d[1] - d[0]) // us)
            exp = Fraction(r[0]) + t * (Fraction(r[1]) - Fraction(r[0]))
            # the reported domain is itself rounded to microseconds by the conversion back from milliseconds
            tol = Fraction(1, 10**9) * abs(Fraction(r[1]) - Fraction(r[0])) * (1 + abs(t)) + Fraction(1, 10**9) * (abs(Fraction(r[0])) + abs(Fraction(r[1])))
            # the rounded a(1-t)+bt carries about one unit in the last place of the range ends per unit of |t|: visible only when
            # the range is a few ulps wide and the instant lies millions of domain spans outside (C15 thorough tier)
            tol += 8 * Fraction(math.ulp(max(abs(r[0]), abs(r[1])))) * (1 + abs(t))
            if x.microsecond % 1000:
                # an instant finer than a millisecond is not a whole number of epoch milliseconds: its float carries up to
                # half an ulp of ~1e12 ms (0.1-0.5 us), which a short domain magnifies by range span / domain span
                ems = max(abs((q - EPOCH) / timedelta(milliseconds=1)) for q in (x, d[0], d[1]))
                tol += 4 * Fraction(math.ulp(ems)) * abs(Fraction(r[1]) - Fraction(r[0])) / abs(Fraction((d[1] - d[0]) // us, 1000))
            if abs(Fraction(y) - exp) > tol:
                self._viol("not-affine", {"op": name, "x": x.isoformat(), "y": y, "expected": float(exp),
                                          "reported_domain": [d[0].isoformat(), d[1].isoformat()], "reported_range": list(r)})
        else:
            if not _num(x) or r[0] == r[1] or d[0] == d[1]:
                return
            self.events["eval.invert"] += 1
            if exc is not None:
                # far extrapolation may leave the datetime range: only inside the range is totality claimed
                if min(r) <= x <= max(r):
                    self._viol("eval-raised", {"op": name, "x": x, "raised": "%s: %s" % (type(exc).__name__, exc)})
                return
            if not isinstance(y, datetime):
                self._viol("invert-type", {"x": x, "y": repr(y)})
                return
            t = (Fraction(x) - Fraction(r[0])) / (Fraction(r[1]) - Fraction(r[0]))
            if not (0 <= t <= 1):
                return
            us = timedelta(microseconds=1)
            exp_us = Fraction((d[0] - EPOCH) // us) + t * Fraction((d[1] - d[0]) // us)
            got_us = Fraction((y - EPOCH) // us)
            if abs(got_us - exp_us) > 1000:
                self._viol("invert-off", {"x": x, "y": y.isoformat(), "off_us": float(got_us - exp_us),
                                          "reported_domain": [d[0].isoformat(), d[1].isoformat()], "reported_range": list(r)})

    def uninstall(self):
        self.p.uninstall()
