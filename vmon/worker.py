import sys

from vmon.core import worker_main

if __name__ == "__main__":
    worker_main(sys.argv[1], sys.argv[2])
