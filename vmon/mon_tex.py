"""H8: monitor on labella.tex.uni2tex (and its re-binding in labella.timeline)."""

from oracles import texinv
from vmon.hooks import Patches


class TexMonitor(object):
    def __init__(self, keep=30):
        self.calls = 0
        self.judged_full = 0  # judged on alignment + read-back
        self.judged_basic = 0  # inputs with \ { } : totality + ASCII identity only
        self.commands = 0  # accent commands observed in outputs
        self.raised = 0
        self.violations = []
        self.n_violations = 0
        self.keep = keep
        self.p = Patches()

    def _viol(self, arg, got, reason):
        self.n_violations += 1
        if len(self.violations) < self.keep:
            self.violations.append({"arg": arg, "codepoints": ["U+%04X" % ord(c) for c in arg][:40], "got": got, "reason": reason})

    def install(self):
        import labella.tex as X
        import labella.timeline as T

        mon = self

        def on_call(orig, args, kwargs):
            text = args[0] if args else kwargs.get("text")
            if not isinstance(text, str):
                return orig(*args, **kwargs)
            mon.calls += 1
            try:
                r = orig(*args, **kwargs)
            except Exception as e:
                mon.raised += 1
                mon._viol(text, None, "raised %s: %s" % (type(e).__name__, e))
                raise
            if any(c in texinv.AMBIGUOUS for c in text):
                mon.judged_basic += 1
                if text.isascii() and r != text:
                    mon._viol(text, r, "ASCII text changed")
                return r
            mon.judged_full += 1
            try:
                ok, reason, ncmd = texinv.judge(text, r)
            except Exception as e:  # the oracle must never disturb the library
                mon.oracle_errors = getattr(mon, "oracle_errors", 0) + 1
                return r
            mon.commands += ncmd
            if not ok:
                mon._viol(text, r, reason)
            return r

        self.p.wrap(X, "uni2tex", on_call)
        self.p.rebind(T, "uni2tex", X.uni2tex)
        return self

    def uninstall(self):
        self.p.uninstall()
