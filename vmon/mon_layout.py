"""H1 / H2 / H4: monitors on Force.compute, removeOverlap.removeOverlap and
Distributor.distribute.  Passive: they record what the real code was given and
what it left behind; the oracles in oracles/layout.py judge the records."""

import copy
from collections import Counter

from vmon.hooks import Patches


class LayoutMonitor(object):
    def __init__(self):
        self.events = Counter()
        self.p = Patches()
        self.computes = []  # finished Force.compute() records
        self.stack = []  # open compute records
        self.orphan_layers = []  # removeOverlap calls outside any compute
        self.distributes = []  # Distributor.distribute records (direct or in situ)

    def install(self):
        import labella.distributor as D
        import labella.force as Fm
        import labella.removeOverlap as R

        mon = self

        def on_compute(orig, args, kwargs):
            force = args[0]
            try:
                rec = {"options": copy.deepcopy(force.options), "labels": list(force._nodes), "layers": [], "distribute": None, "exc": None}
            except Exception as e:  # internals renamed: the monitor cannot observe -> callers see no record (inconclusive)
                mon.events["Force.compute.unobservable"] += 1
                return orig(*args, **kwargs)
            mon.stack.append(rec)
            try:
                return orig(*args, **kwargs)
            except BaseException as e:
                rec["exc"] = type(e).__name__
                raise
            finally:
                mon.stack.pop()
                mon.events["Force.compute"] += 1
                rec["force"] = force
                try:
                    mon._finish(rec)
                except Exception as e:
                    rec["layers"] = [{"items": None, "nodes": [], "error": "monitor post-processing failed: %s" % type(e).__name__}]
                    rec["moved_after_solve"] = []
                    rec["target_problems"] = []
                mon.computes.append(rec)

        def on_remove_overlap(orig, args, kwargs):
            nodes = args[0] if args else kwargs.get("nodes")
            options = args[1] if len(args) > 1 else kwargs.get("options")
            pre = None
            try:
                pre = {id(n): (n.parent.currentPos if n.parent else n.idealPos) for n in nodes}
            except Exception:
                pass
            r = orig(*args, **kwargs)
            mon.events["removeOverlap"] += 1
            try:
                items = [{"t": pre[id(n)], "w": n.width, "stub": bool(n.child), "pos": n.currentPos} for n in nodes]
                L = {"items": items, "nodes": list(nodes), "options_passed": copy.deepcopy(options)}
            except Exception as e:
                L = {"items": None, "nodes": [], "options_passed": None, "error": type(e).__name__}
            (mon.stack[-1]["layers"] if mon.stack else mon.orphan_layers).append(L)
            return r

        def on_distribute(orig, args, kwargs):
            dist = args[0]
            nodes = args[1] if len(args) > 1 else kwargs.get("nodes")
            rec = {"options": copy.deepcopy(dist.options), "input": list(nodes) if nodes else [], "exc": None, "layers": None}
            try:
                r = orig(*args, **kwargs)
            except BaseException as e:
                rec["exc"] = type(e).__name__
                mon.distributes.append(rec)
                raise
            mon.events["Distributor.distribute"] += 1
            rec["layers"] = [list(L) for L in r] if r is not None else None
            if mon.stack:
                mon.stack[-1]["distribute"] = rec
            else:
                mon.distributes.append(rec)
            return r

        self.p.wrap(Fm.Force, "compute", on_compute)
        self.p.wrap(R, "removeOverlap", on_remove_overlap)
        self.p.wrap(D.Distributor, "distribute", on_distribute)
        return self

    def _finish(self, rec):
        """Post-processing of a finished compute record (never raises into library code)."""
        if not rec["layers"] and rec["exc"] is None:
            # the layer solver was not reached through the hooked module function (inlined / renamed): fall back to
            # the property's own observation boundary - the layering the engine reports and the node attributes
            self._layers_from_boundary(rec)
        # cross-check: no layer moved after its own solve
        moved = []
        for li, L in enumerate(rec["layers"]):
            if L["items"] is None:
                continue
            for node, it in zip(L["nodes"], L["items"]):
                if node.currentPos != it["pos"]:
                    moved.append((li, it["pos"], node.currentPos))
        rec["moved_after_solve"] = moved[:5]
        # targets as the property defines them, independent of the parent pointer the code follows:
        # layer 0 -> the data position; layer k -> the final position of the item's own stub in layer k-1
        # (the item of layer k-1 whose child is this item)
        rec["target_problems"] = []
        prev = None
        by_child = {}
        for li, L in enumerate(rec["layers"]):
            if L["items"] is None:
                prev = None
                continue
            if li > 0 and prev is not None:
                by_child = {}
                for pn, pit in zip(prev["nodes"], prev["items"]):
                    ch = getattr(pn, "child", None)
                    if ch is not None:
                        by_child[id(ch)] = pit["pos"]
            for node, it in zip(L["nodes"], L["items"]):
                it["t_parent_rule"] = it["t"]
                if li == 0:
                    it["t"] = node.idealPos
                elif prev is not None:
                    if id(node) in by_child:
                        it["t"] = by_child[id(node)]
                    else:
                        rec["target_problems"].append({"layer": li, "rule": "item of a deeper layer has no stub in the layer below", "idealPos": node.idealPos})
            prev = L

    def _layers_from_boundary(self, rec):
        force = rec.get("force")
        layers = None
        try:
            layers = force.getLayers()
        except Exception:
            pass
        if not layers:
            return
        out = []
        for L in layers:
            nodes = sorted(L, key=lambda n: n.currentPos)
            items = []
            for n in nodes:
                par = getattr(n, "parent", None)
                items.append({"t": (par.currentPos if par is not None else n.idealPos), "w": n.width, "stub": bool(getattr(n, "child", None)), "pos": n.currentPos})
            # equal positions: keep target order among them (the order of coincident items is not observable)
            out.append({"items": items, "nodes": nodes, "options_passed": None, "source": "boundary"})
        rec["layers"] = out
        self.events["layers_from_boundary"] += len(out)

    def drain(self):
        c, self.computes = self.computes, []
        return c

    def drain_distributes(self):
        d, self.distributes = self.distributes, []
        return d

    def uninstall(self):
        self.p.uninstall()
