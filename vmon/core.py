"""Monitor runtime: per-worker context, sharded runner, evidence/replay writers,
three-valued verdicts and known-finding handling.  Standard library only.

A property module (props/cXX.py) provides

    PROPERTY_ID, RULE, ASSUMPTIONS
    plan(tier, seed)            -> list of JSON-able shard descriptors
    worker(ctx, shard)          -> drives the real code under monitors, calls ctx.judge(...)
    floors(tier)                -> {"evaluations": n, "strata": [...], "events": {name: n}, "paths": [...]}
    classify(witness)           -> mechanism key of a known finding, or None   (optional)
    replay(ctx, witness)        -> re-executes one witness                     (optional)
    pinned()                    -> [(key, path)] pinned known-finding witnesses (optional)
"""

import hashlib
import json
import os
import random
import subprocess
import sys
import time
import traceback
from collections import Counter

VERIF = os.path.dirname(os.path.dirname(os.path.abspath(__file__)))
GUARD = "GJJVDBURG_LABELLA_PY_VERIF"
PY = "/venv/bin/python"

HELD, VIOLATED, OUT_OF_SCOPE, INCONCLUSIVE = (
    "held",
    "violated",
    "out_of_scope",
    "inconclusive",
)


def repo_path():
    return os.path.abspath(os.environ.get("VERIF_REPO", "/repo"))


def jdefault(o):
    import datetime
    from fractions import Fraction

    if isinstance(o, (datetime.datetime, datetime.date, datetime.time)):
        return {"__dt__": o.isoformat(), "__kind__": type(o).__name__}
    if isinstance(o, Fraction):
        return float(o)
    if isinstance(o, (set, frozenset)):
        return sorted(o, key=repr)
    if isinstance(o, bytes):
        return o.decode("utf-8", "replace")
    return repr(o)


def jload_hook(d):
    import datetime

    if "__dt__" in d and "__kind__" in d:
        k = d["__kind__"]
        if k == "datetime":
            return datetime.datetime.fromisoformat(d["__dt__"])
        if k == "date":
            return datetime.date.fromisoformat(d["__dt__"])
        if k == "time":
            return datetime.time.fromisoformat(d["__dt__"])
    return d


def jdumps(o, **kw):
    return json.dumps(o, default=jdefault, sort_keys=True, **kw)


def jloads(s):
    return json.loads(s, object_hook=jload_hook)


def digest(o):
    return hashlib.sha1(jdumps(o).encode()).hexdigest()[:16]


class BudgetExceeded(BaseException):
    """Raised by a step-budget monitor to abandon an execution (logical budget)."""


class Ctx(object):
    """Per-worker recording context."""

    MAX_WITNESSES = 40
    MAX_SAMPLES = 4

    def __init__(self, pid, tier, seed, shard_index=0, shard=None):
        self.pid = pid
        self.tier = tier
        self.seed = seed
        self.shard_index = shard_index
        self.shard = shard
        self.evaluations = 0
        self.verdicts = Counter()
        self.strata = {}  # name -> [generated, judged, held]
        self.events = Counter()  # monitor evaluations: hook -> n
        self.paths = Counter()  # named code paths observed
        self.digests = set()  # distinct non-trivial case digests
        self.enumerated_nontrivial = 0  # distinct by construction (sweeps)
        self.violations = []  # witnesses
        self.n_violations = 0
        self.violation_keys = Counter()
        self.samples = []
        self.notes = []
        self.inconclusive_reasons = Counter()
        self.extra = {}

    def should_stop(self, limit=25):
        """A broken tree can make every execution slow (budgets, timeouts): once a shard has this many
        violating executions further cases add nothing."""
        if self.n_violations >= limit:
            if not self.extra.get("stopped_early"):
                self.extra["stopped_early"] = 1
            return True
        return False

    def rng(self, name=""):
        return random.Random(
            "%s:%s:%s:%s" % (self.pid, self.seed, self.shard_index, name)
        )

    def stratum(self, name, generated=0, judged=0, held=0):
        s = self.strata.setdefault(name, [0, 0, 0])
        s[0] += generated
        s[1] += judged
        s[2] += held

    def event(self, name, n=1):
        self.events[name] += n

    def path(self, name, n=1):
        self.paths[name] += n

    def sample(self, case):
        if len(self.samples) < self.MAX_SAMPLES:
            self.samples.append(case)

    def judge(
        self,
        stratum,
        verdict,
        case=None,
        nontrivial=False,
        finding=None,
        key=None,
        reason=None,
        dig=None,
    ):
        """Record the verdict of one monitored execution.

        case: JSON-able description sufficient to replay (only stored for
        violations / samples); finding: what the oracle saw (expected vs
        observed); key: structural mechanism key (for known findings).
        """
        self.evaluations += 1
        self.verdicts[verdict] += 1
        s = self.strata.setdefault(stratum, [0, 0, 0])
        s[0] += 1
        if verdict in (HELD, VIOLATED):
            s[1] += 1
        if verdict == HELD:
            s[2] += 1
            if nontrivial:
                self.digests.add(dig if dig is not None else digest(case))
                if case is not None and len(self.samples) < self.MAX_SAMPLES:
                    self.samples.append({"stratum": stratum, "case": case})
        elif verdict == VIOLATED:
            self.n_violations += 1
            self.violation_keys[key or "unclassified"] += 1
            if len(self.violations) < self.MAX_WITNESSES:
                self.violations.append(
                    {
                        "property": self.pid,
                        "stratum": stratum,
                        "case": case,
                        "finding": finding,
                        "key": key,
                        "seed": self.seed,
                        "shard": self.shard,
                    }
                )
        elif verdict == INCONCLUSIVE:
            self.inconclusive_reasons[reason or "unspecified"] += 1

    def bulk_held(self, stratum, n, nontrivial_distinct=0):
        """Record n held executions of an enumerated sweep at once."""
        self.evaluations += n
        self.verdicts[HELD] += n
        s = self.strata.setdefault(stratum, [0, 0, 0])
        s[0] += n
        s[1] += n
        s[2] += n
        self.enumerated_nontrivial += nontrivial_distinct

    def dump(self):
        return {
            "evaluations": self.evaluations,
            "verdicts": dict(self.verdicts),
            "strata": self.strata,
            "events": dict(self.events),
            "paths": dict(self.paths),
            "digests": sorted(self.digests),
            "enumerated_nontrivial": self.enumerated_nontrivial,
            "violations": self.violations,
            "n_violations": self.n_violations,
            "violation_keys": dict(self.violation_keys),
            "samples": self.samples,
            "notes": self.notes,
            "inconclusive_reasons": dict(self.inconclusive_reasons),
            "extra": self.extra,
        }


def merge(dumps):
    m = {
        "evaluations": 0,
        "verdicts": Counter(),
        "strata": {},
        "events": Counter(),
        "paths": Counter(),
        "digests": set(),
        "enumerated_nontrivial": 0,
        "violations": [],
        "n_violations": 0,
        "violation_keys": Counter(),
        "samples": [],
        "notes": [],
        "inconclusive_reasons": Counter(),
        "extra": {},
    }
    m["reach"] = {}
    for d in dumps:
        for fn, lines in (d.get("reach") or {}).items():
            m["reach"].setdefault(fn, set()).update(lines)
        m["evaluations"] += d["evaluations"]
        m["verdicts"].update(d["verdicts"])
        for k, v in d["strata"].items():
            s = m["strata"].setdefault(k, [0, 0, 0])
            for i in range(3):
                s[i] += v[i]
        m["events"].update(d["events"])
        m["paths"].update(d["paths"])
        m["digests"].update(d["digests"])
        m["enumerated_nontrivial"] += d["enumerated_nontrivial"]
        m["violations"].extend(d["violations"])
        m["n_violations"] += d["n_violations"]
        m["violation_keys"].update(d["violation_keys"])
        if len(m["samples"]) < 5:
            m["samples"].extend(d["samples"][: 5 - len(m["samples"])])
        m["notes"].extend(d["notes"])
        m["inconclusive_reasons"].update(d["inconclusive_reasons"])
        for k, v in d.get("extra", {}).items():
            if isinstance(v, (int, float)) and isinstance(
                m["extra"].get(k, 0), (int, float)
            ):
                m["extra"][k] = m["extra"].get(k, 0) + v
            elif isinstance(v, list):
                m["extra"].setdefault(k, [])
                if len(m["extra"][k]) < 50:
                    m["extra"][k].extend(v[:50])
            elif isinstance(v, dict):
                t = m["extra"].setdefault(k, {})
                for kk, vv in v.items():
                    if isinstance(vv, (int, float)):
                        t[kk] = t.get(kk, 0) + vv
                    else:
                        t[kk] = vv
            else:
                m["extra"][k] = v
    return m


# ---------------------------------------------------------------------------
# known findings


def load_known_findings(pid):
    """Return ({key: {"witness": path|None, "text": str}}, [fixed lines])."""
    path = os.path.join(VERIF, "KNOWN_FINDINGS.txt")
    findings, fixed = {}, []
    if not os.path.exists(path):
        return findings, fixed
    for line in open(path, encoding="utf-8"):
        line = line.strip()
        if not line or line.startswith("#"):
            continue
        if line.startswith("finding:"):
            rest = line[len("finding:") :].strip()
            toks = rest.split()
            kv = {}
            text = []
            for t in toks:
                if "=" in t and not text and t.split("=", 1)[0] in (
                    "property",
                    "key",
                    "witness",
                ):
                    k, v = t.split("=", 1)
                    kv[k] = v
                else:
                    text.append(t)
            if kv.get("property") == pid and "key" in kv:
                findings[kv["key"]] = {
                    "witness": kv.get("witness"),
                    "text": " ".join(text),
                }
        elif line.startswith("fixed:"):
            if ("property=%s " % pid) in line + " ":
                fixed.append(line)
    return findings, fixed


# ---------------------------------------------------------------------------
# tree identity


def tree_identity():
    rp = repo_path()
    try:
        head = subprocess.run(
            ["git", "-C", rp, "rev-parse", "HEAD"],
            capture_output=True,
            text=True,
            timeout=30,
        ).stdout.strip()
        diff = subprocess.run(
            ["git", "-C", rp, "diff", "HEAD", "--", "labella"],
            capture_output=True,
            timeout=30,
        ).stdout
        dirty = hashlib.sha1(diff).hexdigest()[:12] if diff else "clean"
    except Exception as e:  # not a git tree (scratch copy)
        head, dirty = "n/a", "n/a:" + type(e).__name__
    return {"repo": rp, "head": head, "dirty": dirty}


def worker_env(extra=None):
    env = dict(os.environ)
    env["PYTHONPATH"] = repo_path() + os.pathsep + VERIF
    env["PYTHONDONTWRITEBYTECODE"] = "1"
    env["PYTHONHASHSEED"] = "0"
    env.setdefault("TZ", "UTC")
    env[GUARD] = "1"
    if extra:
        env.update(extra)
    return env


def assert_repo_under_test():
    """The labella that is imported must be the tree under VERIF_REPO."""
    import labella

    f = os.path.abspath(labella.__file__)
    if not f.startswith(repo_path() + os.sep):
        raise RuntimeError(
            "labella imported from %s, expected under %s" % (f, repo_path())
        )
    if os.environ.get(GUARD) != "1":
        raise RuntimeError("monitors refuse to install without %s=1" % GUARD)


# ---------------------------------------------------------------------------
# runner


def load_prop(pid):
    import importlib

    return importlib.import_module("props.%s" % pid.lower())


def run_workers(pid, tier, seed, shards, jobs, timeout_s):
    outdir = os.path.join(VERIF, "out", "tmp", "%s-%d-%d" % (pid, os.getpid(), int(time.time())))
    os.makedirs(outdir, exist_ok=True)
    pending = list(enumerate(shards))
    running = []
    results = []
    failures = []
    while pending or running:
        while pending and len(running) < jobs:
            i, shard = pending.pop(0)
            out = os.path.join(outdir, "shard%04d.json" % i)
            spec = os.path.join(outdir, "shard%04d.spec.json" % i)
            with open(spec, "w") as f:
                f.write(jdumps({"pid": pid, "tier": tier, "seed": seed, "index": i, "shard": shard}))
            extra = shard.get("env") if isinstance(shard, dict) else None
            logf = open(os.path.join(outdir, "shard%04d.log" % i), "w")
            p = subprocess.Popen(
                [PY, "-X", "faulthandler", "-m", "vmon.worker", spec, out],
                cwd=VERIF,
                env=worker_env(extra),
                stdout=logf,
                stderr=subprocess.STDOUT,
            )
            running.append((p, i, out, time.time(), logf))
        time.sleep(0.02)
        still = []
        for p, i, out, t0, logf in running:
            rc = p.poll()
            if rc is None:
                if time.time() - t0 > timeout_s:
                    p.kill()
                    p.wait()
                    logf.close()
                    failures.append((i, "watchdog: worker exceeded %ds (inconclusive)" % timeout_s))
                else:
                    still.append((p, i, out, t0, logf))
                continue
            logf.close()
            if rc != 0 or not os.path.exists(out):
                try:
                    tail = open(os.path.join(outdir, "shard%04d.log" % i)).read()[-1500:]
                except Exception:
                    tail = ""
                failures.append((i, "worker exit %s: %s" % (rc, tail)))
            else:
                results.append(jloads(open(out).read()))
        running = still
    if not failures:
        import shutil

        shutil.rmtree(outdir, ignore_errors=True)
    return results, failures


def write_replay(pid, witness):
    d = os.path.join(VERIF, "out", "replays", pid)
    os.makedirs(d, exist_ok=True)
    p = os.path.join(d, digest(witness) + ".json")
    with open(p, "w") as f:
        f.write(jdumps(witness, indent=1))
    return p


def main(argv=None):
    import argparse

    ap = argparse.ArgumentParser()
    ap.add_argument("pid")
    ap.add_argument("--tier", default=os.environ.get("VERIF_TIER", "quick"))
    ap.add_argument("--seed", type=int, default=None)
    ap.add_argument("--replay", default=None)
    ap.add_argument("--jobs", type=int, default=int(os.environ.get("VERIF_JOBS", "16")))
    a = ap.parse_args(argv)
    pid = a.pid.upper()
    tier = a.tier if a.tier in ("quick", "thorough") else "quick"
    seed = a.seed if a.seed is not None else int(os.environ.get("VERIF_SEED", "0") or 0)
    t0 = time.time()
    # the main process also needs the repo + verif on its path for planning/replay
    if a.replay:
        return replay_main(pid, tier, seed, a.replay)

    sys.path.insert(0, VERIF)
    mod = load_prop(pid)
    shards = mod.plan(tier, seed)
    timeout_s = getattr(mod, "WORKER_TIMEOUT", {"quick": 900, "thorough": 4 * 3600})[tier]
    results, failures = run_workers(pid, tier, seed, shards, a.jobs, timeout_s)
    m = merge(results)

    known, fixed = load_known_findings(pid)
    classify = getattr(mod, "classify", None)
    fresh = []
    known_hits = Counter()
    seen_w = set()
    for w in m["violations"]:
        dg = digest([w.get("key"), w.get("case"), w.get("stratum")])
        if dg in seen_w:
            continue
        seen_w.add(dg)
        key = w.get("key") or (classify(w) if classify else None)
        if key and key in known:
            known_hits[key] += 1
        else:
            fresh.append(w)
    # violations beyond the stored witnesses: keys are counted by workers
    for key, n in m["violation_keys"].items():
        if key not in known and not any((w.get("key") or "unclassified") == key for w in fresh):
            fresh.append({"property": pid, "key": key, "case": None,
                          "finding": "%d violations with this key (witness list truncated)" % n})

    # a known finding is a recorded defect, not a licence: if far more executions fall under its mechanism key than when it
    # was recorded, something else is going on (a change that makes the weakness common would otherwise hide behind it)
    fl0 = mod.floors(tier) if hasattr(mod, "floors") else {}
    for key, frac in (fl0.get("max_known_finding_frac") or {}).items():
        n_key = m["violation_keys"].get(key, 0)
        if key in known and n_key > frac * max(1, m["evaluations"]):
            fresh.append({"property": pid, "key": key + ":rate-above-the-recorded-one", "case": None,
                          "finding": "%d of %d executions fall under the known finding %r: more than the %.3g%% allowed for it" % (n_key, m["evaluations"], key, 100 * frac)})

    # pinned known-finding witnesses are replayed by a worker shard of kind "pinned"
    pinned_lines = []
    for key, info in known.items():
        status = m["extra"].get("pinned", {}).get(key)
        if status == "fails" or known_hits.get(key):
            pinned_lines.append("KNOWN-FINDING: property=%s %s" % (pid, info["text"]))

    # most readable witnesses first: shrunk ones, then the smallest cases
    fresh.sort(key=lambda w: (0 if w.get("shrunk") else 1, len(jdumps(w.get("case")))))
    fl = mod.floors(tier) if hasattr(mod, "floors") else {}
    inconclusive = []
    for i, msg in failures:
        inconclusive.append("shard %d: %s" % (i, msg))
    if m["evaluations"] < fl.get("evaluations", 1):
        inconclusive.append("evaluations %d < floor %d" % (m["evaluations"], fl.get("evaluations", 1)))
    for s in fl.get("strata", []):
        if m["strata"].get(s, [0, 0, 0])[1] == 0:
            inconclusive.append("stratum %r never judged" % s)
    for name, n in fl.get("events", {}).items():
        if m["events"].get(name, 0) < n:
            inconclusive.append("monitor %r evaluated %d < floor %d" % (name, m["events"].get(name, 0), n))
    for name in fl.get("paths", []):
        if m["paths"].get(name, 0) == 0:
            inconclusive.append("path %r never observed" % name)
    judged = m["verdicts"].get(HELD, 0) + m["verdicts"].get(VIOLATED, 0)
    inc = m["verdicts"].get(INCONCLUSIVE, 0)
    if inc > fl.get("max_inconclusive_frac", 0.01) * max(1, judged + inc):
        inconclusive.append("inconclusive executions %d of %d (%s)" % (inc, judged + inc, dict(m["inconclusive_reasons"])))
    distinct = len(m["digests"]) + m["enumerated_nontrivial"]
    if distinct < fl.get("distinct_nontrivial", 2):
        inconclusive.append("distinct non-trivial cases %d < floor %d" % (distinct, fl.get("distinct_nontrivial", 2)))

    wall = time.time() - t0
    cov = {
        "evaluations": int(m["evaluations"]),
        "distinct_nontrivial": int(distinct),
        "rule": getattr(mod, "RULE", ""),
        "samples": m["samples"][:5] or [{"note": "no held non-trivial sample recorded"}],
        "verdicts": dict(m["verdicts"]),
        "strata": {k: {"generated": v[0], "judged": v[1], "held": v[2]} for k, v in sorted(m["strata"].items())},
        "monitor_events": dict(m["events"]),
        "paths": dict(m["paths"]),
        "known_findings_matched": dict(known_hits),
        "inconclusive_reasons": dict(m["inconclusive_reasons"]),
        "floors_unmet": inconclusive,
        "shards": len(shards),
        "tree": tree_identity(),
        "notes": m["notes"][:20],
        "extra": m["extra"],
    }
    # reach of the anchored files: executable lines of /repo/labella/*.py executed under this workload
    try:
        anchors = []
        for line in open(os.path.join(VERIF, "properties.jsonl")):
            pj = json.loads(line)
            if pj["id"] == pid:
                anchors = [a.split("labella/")[-1] for a in pj["anchors"]["files"]]
        reach = {}
        for fn in sorted(set(anchors) | set(m["reach"])):
            total = executable_lines(os.path.join(repo_path(), "labella", fn))
            got = set(m["reach"].get(fn, ())) & total if total else set()
            reach[fn] = {"lines_executed": len(got), "executable_lines": len(total), "anchored": fn in anchors}
        cov["anchored_line_reach"] = reach
    except Exception as e:  # evidence garnish only
        cov["anchored_line_reach"] = {"error": repr(e)}
    if hasattr(mod, "EXHAUSTIVE"):
        ex = mod.EXHAUSTIVE(tier) if callable(mod.EXHAUSTIVE) else mod.EXHAUSTIVE
        if ex:
            cov["exhaustive"] = True
            cov["exhaustive_subclaim"] = ex
    ev = {
        "property_id": pid,
        "tier": tier,
        "seed": seed,
        "level": getattr(mod, "LEVEL", "exploration"),
        "coverage": cov,
        "assumptions": list(getattr(mod, "ASSUMPTIONS", [])),
        "wall_s": round(wall, 2),
        "violations": len(fresh),
    }
    evdir = os.environ.get("VERIF_EVIDENCE_DIR") or os.path.join(VERIF, "evidence")
    os.makedirs(evdir, exist_ok=True)
    with open(os.path.join(evdir, pid + ".json"), "w") as f:
        f.write(jdumps(ev, indent=1))

    print("%s tier=%s seed=%d evaluations=%d distinct_nontrivial=%d verdicts=%s wall=%.1fs" % (
        pid, tier, seed, m["evaluations"], distinct, dict(m["verdicts"]), wall))
    print("monitor_events=%s" % dict(m["events"]))
    for line in pinned_lines:
        print(line)
    if fresh:
        for w in fresh[:10]:
            p = write_replay(pid, w)
            print("VIOLATION property=%s replay=%s" % (pid, p))
            f = w.get("finding")
            print("  key=%s finding=%s" % (w.get("key"), jdumps(f)[:600]))
        if len(fresh) > 10:
            print("  ... and %d more (total violating executions: %d)" % (len(fresh) - 10, m["n_violations"]))
        return 1
    if inconclusive:
        for r in inconclusive:
            print("INCONCLUSIVE property=%s reason=%s" % (pid, r))
        return 2
    print("HELD property=%s on everything explored" % pid)
    return 0


def replay_main(pid, tier, seed, path):
    w = jloads(open(path).read())
    spec = {"pid": pid, "tier": tier, "seed": w.get("seed", seed), "index": 0,
            "shard": {"kind": "replay", "witness": w}}
    outdir = os.path.join(VERIF, "out", "tmp")
    os.makedirs(outdir, exist_ok=True)
    sp = os.path.join(outdir, "replay-%d.spec.json" % os.getpid())
    out = os.path.join(outdir, "replay-%d.json" % os.getpid())
    with open(sp, "w") as f:
        f.write(jdumps(spec))
    extra = (w.get("shard") or {}).get("env") if isinstance(w.get("shard"), dict) else None
    rc = subprocess.run([PY, "-m", "vmon.worker", sp, out], cwd=VERIF, env=worker_env(extra)).returncode
    if rc != 0 or not os.path.exists(out):
        print("INCONCLUSIVE property=%s reason=replay worker failed rc=%s" % (pid, rc))
        return 2
    d = jloads(open(out).read())
    os.remove(sp)
    os.remove(out)
    print("replay verdicts=%s" % d["verdicts"])
    if d["n_violations"]:
        for v in d["violations"][:3]:
            print("  key=%s finding=%s" % (v.get("key"), jdumps(v.get("finding"))[:1500]))
        print("VIOLATION property=%s replay=%s" % (pid, path))
        return 1
    print("replay did not violate")
    return 0


class Reach(object):
    """Line reach of the repository's modules under this workload: sys.monitoring LINE events,
    disabled per location after the first hit (so the cost is paid once per line)."""

    def __init__(self):
        self.hit = {}
        self.on = False
        self.root = os.path.join(repo_path(), "labella") + os.sep

    def start(self):
        mon = getattr(sys, "monitoring", None)
        if mon is None or os.environ.get("VMON_REACH", "1") != "1":
            return
        try:
            mon.use_tool_id(mon.COVERAGE_ID, "vmon-reach")
        except ValueError:
            return
        root = self.root
        hit = self.hit

        def on_line(code, line):
            fn = code.co_filename
            if fn.startswith(root):
                hit.setdefault(fn[len(root):], set()).add(line)
            return mon.DISABLE

        mon.register_callback(mon.COVERAGE_ID, mon.events.LINE, on_line)
        mon.set_events(mon.COVERAGE_ID, mon.events.LINE)
        self.on = True

    def stop(self):
        if not self.on:
            return {}
        mon = sys.monitoring
        mon.set_events(mon.COVERAGE_ID, 0)
        mon.free_tool_id(mon.COVERAGE_ID)
        return {k: sorted(v) for k, v in self.hit.items()}


def executable_lines(path):
    """Line numbers that carry code in a source file (from the compiled code objects)."""
    try:
        code = compile(open(path, encoding="utf-8").read(), path, "exec")
    except Exception:
        return set()
    out = set()
    stack = [code]
    while stack:
        c = stack.pop()
        for _, _, ln in c.co_lines():
            if ln is not None:
                out.add(ln)
        for k in c.co_consts:
            if hasattr(k, "co_lines"):
                stack.append(k)
    return out


def worker_main(spec_path, out_path):
    spec = jloads(open(spec_path).read())
    sys.setrecursionlimit(1000)
    assert_repo_under_test()
    reach = Reach()
    reach.start()
    mod = load_prop(spec["pid"])
    ctx = Ctx(spec["pid"], spec["tier"], spec["seed"], spec["index"], spec["shard"])
    shard = spec["shard"]
    try:
        if isinstance(shard, dict) and shard.get("kind") == "replay":
            mod.replay(ctx, shard["witness"])
        else:
            mod.worker(ctx, shard)
    except BaseException:
        traceback.print_exc()
        raise
    d = ctx.dump()
    d["reach"] = reach.stop()
    with open(out_path, "w") as f:
        f.write(jdumps(d))
