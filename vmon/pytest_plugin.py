"""Workload R: the repository's own tests run with every monitor installed.

    PYTHONPATH=/repo:/verif GJJVDBURG_LABELLA_PY_VERIF=1 /venv/bin/python -m pytest -q -p vmon.pytest_plugin -p no:cacheprovider /repo/tests

Writes $VMON_REPORT (default /verif/out/workloadR.json): per monitor, the number of judged
events and the violations observed while the tests ran.
"""

import json
import os

_M = {}


def pytest_configure(config):
    from vmon.core import assert_repo_under_test

    assert_repo_under_test()
    from vmon.mon_layout import LayoutMonitor
    from vmon.mon_scale import LinearMonitor, TimeMonitor
    from vmon.mon_tex import TexMonitor
    from vmon.mon_time import CalendarMonitor
    from vmon.mon_utils import UtilsMonitor
    from vmon.mon_vpsc import SolverMonitor

    _M["linear"] = LinearMonitor().install()
    _M["time"] = TimeMonitor().install()
    _M["calendar"] = CalendarMonitor().install()
    _M["solver"] = SolverMonitor().install()
    _M["layout"] = LayoutMonitor().install()
    _M["tex"] = TexMonitor().install()
    _M["utils"] = UtilsMonitor().install()


def pytest_runtest_setup(item):
    if "linear" in _M:
        _M["linear"].reset()


def pytest_sessionfinish(session, exitstatus):
    from fractions import Fraction

    from oracles import layout as OL
    from oracles import qpcert as Q

    rep = {"exitstatus": int(exitstatus)}
    lm, tm, cm = _M["linear"], _M["time"], _M["calendar"]
    rep["linear"] = {"events": dict(lm.events), "violations": lm.violations[:10], "n_violations": lm.n_violations}
    rep["time"] = {"events": dict(tm.events), "paths": dict(tm.paths), "violations": tm.violations[:10], "n_violations": tm.n_violations}
    rep["calendar"] = {"calls": {"%s.%s" % k: v for k, v in cm.calls.items()}, "violations": cm.violations[:10], "n_violations": cm.n_violations}
    # solver records: certify each
    sv = {"solves": 0, "held": 0, "violated": [], "inconclusive": 0, "cyclic": 0}
    for rec in _M["solver"].drain():
        sv["solves"] += 1
        if rec["exc"] is not None or rec.get("x") is None:
            sv["violated"].append({"exc": rec["exc"]})
            continue
        inst = rec["inst"]
        if Q.topo_order(inst) is None:
            sv["cyclic"] += 1
            continue
        res = Q.certify(inst, rec["x"], rec["cost"], active=rec["active"])
        if res["verdict"] == "held":
            sv["held"] += 1
        elif res["verdict"] == "violated":
            sv["violated"].append({"instance": inst.to_json(), "reason": res.get("reason"), "cost": res.get("cost"), "better": res.get("better_cost")})
        else:
            sv["inconclusive"] += 1
    sv["violated"] = sv["violated"][:10]
    rep["solver"] = sv
    ly = {"computes": 0, "layers": 0, "c01_problems": [], "c02_problems": [], "c03_problems": []}
    for rec in _M["layout"].drain():
        ly["computes"] += 1
        o = rec["options"]
        mn, mx, sp = o.get("minPos", 0), o.get("maxPos"), o.get("nodeSpacing", 3)
        for L in rec["layers"]:
            if not L["items"]:
                continue
            ly["layers"] += 1
            p = OL.judge_c01(L["items"], sp)
            if p:
                ly["c01_problems"].append(p[0])
            v, p, _ = OL.judge_c02(L["items"], sp, mn, mx)
            if v == "violated":
                ly["c02_problems"].append(p[0])
            v, p, _ = OL.judge_c03(L["items"], sp, mn, mx)
            if v == "violated":
                ly["c03_problems"].append(p[0])
    rep["layout"] = ly
    rep["tex"] = {"calls": _M["tex"].calls, "n_violations": _M["tex"].n_violations}
    rep["utils"] = {"calls": dict(_M["utils"].calls), "n_violations": _M["utils"].n_violations}
    out = os.environ.get("VMON_REPORT") or os.path.join(os.path.dirname(os.path.dirname(os.path.abspath(__file__))), "out", "workloadR.json")
    os.makedirs(os.path.dirname(out), exist_ok=True)
    from vmon.core import jdumps

    with open(out, "w") as f:
        f.write(jdumps(rep, indent=1))
    for m in _M.values():
        m.uninstall()
