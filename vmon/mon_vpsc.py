"""H3: monitor on labella.vpsc.Solver (+ Blocks / Block operations).

Records, per solve() call, a snapshot of the instance taken at Solver.__init__,
operation counters (logical step budget), the returned cost, final positions,
active set and unsatisfiable flags.  Recursive internals (compute_lm,
populateSplitBlock, findPath, isActiveDirectedPathBetween) are deliberately not
wrapped: extra frames would change where the recursion limit bites.
"""

from collections import Counter

from oracles.qpcert import Instance
from vmon.core import BudgetExceeded
from vmon.hooks import Patches


def default_budget(n, m):
    return 100 * (n + m) + 5000


class SolverMonitor(object):
    def __init__(self, budget=default_budget, keep=100000):
        self.budget = budget
        self.records = []
        self.keep = keep
        self.events = Counter()
        self.paths = Counter()
        self.p = Patches()
        self.stack = []  # solvers currently inside solve()/satisfy()
        self.state = {}  # id(solver) -> dict(snapshot)
        self.suspended = 0

    # ------------------------------------------------------------------
    def install(self):
        import labella.vpsc as V

        mon = self

        def snapshot(solver):
            try:
                vs, cs = solver.vs, solver.cs
                idx = {id(v): i for i, v in enumerate(vs)}
                inst = Instance(
                    [v.desiredPosition for v in vs],
                    [v.weight for v in vs],
                    [v.scale for v in vs],
                    [(idx[id(c.left)], idx[id(c.right)], c.gap) for c in cs],
                )
                st = {"solver": solver, "inst": inst, "ops": Counter(), "equality": any(c.equality for c in cs),
                      "budget": mon.budget(len(vs), len(cs)), "total": 0, "diag": []}
                mon.state[id(solver)] = st
                return st
            except Exception as e:  # foreign objects: do not judge
                mon.events["Solver.unsnapshotable"] += 1
                return None

        def on_init(orig, args, kwargs):
            r = orig(*args, **kwargs)
            if mon.suspended:
                return r
            if snapshot(args[0]) is not None:
                mon.events["Solver.__init__"] += 1
            return r

        def on_solve(orig, args, kwargs):
            solver = args[0]
            st = mon.state.get(id(solver)) if not mon.suspended else None
            if (st is None or st["solver"] is not solver) and not mon.suspended and not mon.stack:
                # solve() called again on a solver that was solved before (possibly with new desired positions): the
                # problem it is asked to solve now is what its variables and constraints say at this moment
                st = snapshot(solver)
                if st is not None:
                    st["resolve"] = True
                    mon.events["Solver.solve.again"] += 1
            if st is None or st["solver"] is not solver:
                return orig(*args, **kwargs)
            mon.stack.append(st)
            exc = None
            cost = None
            try:
                cost = orig(*args, **kwargs)
                return cost
            except BudgetExceeded:
                exc = "BudgetExceeded"
                raise
            except BaseException as e:
                exc = type(e).__name__
                raise
            finally:
                mon.stack.pop()
                mon.state.pop(id(solver), None)
                mon.events["Solver.solve"] += 1
                rec = {"inst": st["inst"], "ops": dict(st["ops"]), "total_ops": st["total"], "budget": st["budget"], "exc": exc,
                       "cost": cost, "diag": st["diag"][:5], "equality": st["equality"], "rounds": st.get("rounds", [])[-6:], "resolve": bool(st.get("resolve"))}
                if exc is None:
                    try:
                        rec["x"] = [v.position() for v in solver.vs]
                        rec["active"] = [i for i, c in enumerate(solver.cs) if c.active]
                        rec["unsat"] = [i for i, c in enumerate(solver.cs) if c.unsatisfiable]
                    except Exception as e:
                        rec["exc"] = "readback:" + type(e).__name__
                if len(mon.records) < mon.keep:
                    mon.records.append(rec)

        def op(name, budgeted=True):
            def on_call(orig, args, kwargs):
                if mon.stack:
                    st = mon.stack[-1]
                    st["ops"][name] += 1
                    if budgeted:
                        st["total"] += 1
                        if st["total"] > st["budget"]:
                            raise BudgetExceeded("%d operations > budget %d" % (st["total"], st["budget"]))
                return orig(*args, **kwargs)

            return on_call

        def on_merge(orig, args, kwargs):
            if mon.stack:
                st = mon.stack[-1]
                st["ops"]["merge"] += 1
                st["total"] += 1
                try:
                    c = args[1]
                    if len(c.left.block.vars) < len(c.right.block.vars):
                        mon.paths["vpsc.merge-right-larger"] += 1
                    else:
                        mon.paths["vpsc.merge-left-larger"] += 1
                except Exception:
                    pass
                if st["total"] > st["budget"]:
                    raise BudgetExceeded("%d operations > budget %d" % (st["total"], st["budget"]))
            return orig(*args, **kwargs)

        def on_satisfy(orig, args, kwargs):
            solver = args[0]
            top = mon.stack[-1] if mon.stack else None
            r = orig(*args, **kwargs)
            if top is not None and top["solver"] is solver:
                top["ops"]["satisfy"] += 1
                try:
                    splits = top["ops"].get("split", 0) + top["ops"].get("splitBetween", 0)
                    top.setdefault("rounds", []).append((splits - top.get("_splits_seen", 0), solver.bs.cost()))
                    top["_splits_seen"] = splits
                except Exception:
                    pass
                d = mon.block_invariant(solver)
                if d:
                    top["diag"].extend(d)
                if any(c.unsatisfiable for c in solver.cs):
                    mon.paths["vpsc.cycle-flag"] += 1
            return r

        def on_blocksplit(orig, args, kwargs):
            # Blocks.split(inactive): count how many blocks it really split
            blocks = args[0]
            before = len(args[1]) if len(args) > 1 else None
            r = orig(*args, **kwargs)
            if mon.stack and before is not None:
                k = len(args[1]) - before
                if k > 0:
                    mon.stack[-1]["ops"]["split"] += k
                    mon.stack[-1]["total"] += k
                    mon.paths["vpsc.split"] += k
            return r

        def on_splitbetween(orig, args, kwargs):
            r = orig(*args, **kwargs)
            if mon.stack:
                mon.stack[-1]["ops"]["splitBetween"] += 1
                mon.stack[-1]["total"] += 1
                if r is not None:
                    mon.paths["vpsc.splitBetween"] += 1
            return r

        self.p.wrap(V.Solver, "__init__", on_init)
        self.p.wrap(V.Solver, "solve", on_solve)
        self.p.wrap(V.Solver, "satisfy", on_satisfy)
        self.p.wrap(V.Solver, "mostViolated", op("mostViolated"))
        self.p.wrap(V.Blocks, "merge", on_merge)
        self.p.wrap(V.Blocks, "split", on_blocksplit)
        self.p.wrap(V.Blocks, "insert", op("insert", budgeted=False))
        self.p.wrap(V.Blocks, "remove", op("remove", budgeted=False))
        self.p.wrap(V.Block, "splitBetween", on_splitbetween)
        return self

    # ------------------------------------------------------------------
    def block_invariant(self, solver):
        """Diagnostic (never decides): block partition consistency at satisfy() exit."""
        probs = []
        try:
            bs = solver.bs
            lst = bs._list
            seen = {}
            for k, b in enumerate(lst):
                if getattr(b, "blockInd", k) != k:
                    probs.append("blockInd %r of block at index %d" % (getattr(b, "blockInd", None), k))
                for v in b.vars:
                    if id(v) in seen:
                        probs.append("variable listed in two blocks")
                    seen[id(v)] = b
                    if v.block is not b:
                        probs.append("variable.block does not point at the block listing it")
            for v in solver.vs:
                if id(v) not in seen:
                    probs.append("variable in no listed block")
            nact = Counter()
            for c in solver.cs:
                if c.active:
                    if c.left.block is not c.right.block:
                        probs.append("active constraint joins two blocks")
                    else:
                        nact[id(c.left.block)] += 1
                        sl = c.right.scale * c.right.position() - c.left.scale * c.left.position() - c.gap
                        if abs(sl) > 1e-6 * (1 + abs(c.gap)):
                            probs.append("active constraint not tight (slack %r)" % sl)
            for b in lst:
                if nact[id(b)] != len(b.vars) - 1:
                    probs.append("block of %d variables has %d active constraints" % (len(b.vars), nact[id(b)]))
        except Exception as e:
            probs.append("invariant walk raised %s" % type(e).__name__)
        if probs:
            self.events["block_invariant.problems"] += 1
        self.events["block_invariant"] += 1
        return probs[:3]

    def drain(self):
        r = self.records
        self.records = []
        return r

    def uninstall(self):
        self.p.uninstall()
