"""Wtl: seeded timeline specs (data + options) for C07-C11, JSON-able.

A spec is {"data": [...], "options": {...}} where
  - every datum carries a unique "uid" and a unique signature (text and/or width),
  - option values that are Python objects are given by name:
      "scale": "linear" | "time" | "default"      (default = option omitted)
      colour options: "#abc" | "#aabbcc" | ["#..", ...] | {"fn": "<name in FNLIB>"}
      "textFn"/"timeFn": absent | {"fn": name}
build(spec) returns fresh (data, options) Python objects (deep copies) for one timeline.
"""

import copy
import datetime as dt

DIRECTIONS = ["up", "down", "left", "right"]

PALETTE3 = ["#222", "#fff", "#f00", "#0a3", "#ABC", "#9cf", "#00f", "001"]
PALETTE6 = ["#1f77b4", "#ff7f0e", "#2ca02c", "#D62728", "#9467BD", "#8c564b", "#e377c2", "#0000FF", "000a0b", "#00ff00"]


def _by_uid_colour(d):
    return PALETTE6[d["uid"] % len(PALETTE6)]


def _by_uid_colour3(d):
    return PALETTE3[d["uid"] % len(PALETTE3)]


def _by_parity(d):
    return "#a00" if d["uid"] % 2 else "#00A0b0"


FNLIB = {
    "by_uid6": _by_uid_colour,
    "by_uid3": _by_uid_colour3,
    "by_parity": _by_parity,
    "text_from_label": lambda d: d.get("label"),
    "text_with_uid": lambda d: ("%s #%d" % (d["text"], d["uid"])) if d.get("text") else None,  # combines two fields of the row
    "time_from_when": lambda d: d["when"],
}

TEXT_CLASSES = ["none", "ascii", "xml", "accent", "cjk", "emoji", "mixed"]


def make_text(rng, cls, i):
    base = "L%d" % i
    if cls == "none":
        return None
    if cls == "ascii":
        return base + rng.choice(["", " event", " A-b_c", " 100%", " x^2 ~ y", "  two  spaces ", " trailing ", "\ttab", " line one \nline two", " a\t\nb"])
    if cls == "xml":
        return base + rng.choice([" <b>&amp;</b>", " a<b & c>d", ' "q" \'s\'', " ]]> <!-- x -->", " &lt;", " see <ID> and <TEXT>", ' say "hi" twice "ok"'])
    if cls == "accent":
        return base + rng.choice([" café", " Ångström", " naïve façade", " é", " Crème brûlée ñ", " Dvořák", " Vie\u0323\u0302t Nam", " a\u0301\u0308 o\u0302\u0301",
                                  " e\u0301 (decomposed)", " \u1ec7 \u01d8"])
    if cls == "cjk":
        return base + rng.choice([" 漢字", " 日本語テキスト", " 한국어"])
    if cls == "emoji":
        return base + rng.choice([" \U0001f680", " ❤ ok", " \U0001f600\U0001f600"])
    return base + rng.choice([" café <&> 漢", " … ½ ﬁ", " ü & \U0001f680"])


def gen_times(rng, kind, n):
    """kind: float | date | datetime | time | mixed-date-datetime"""
    if kind == "float":
        model = rng.choice(["uniform", "ints", "clustered", "tied", "tiny", "huge"])
        if model == "uniform":
            return [rng.uniform(-1000, 1000) for _ in range(n)]
        if model == "ints":
            # whole numbers, a third of them as Python ints: int and float are both "numbers"
            return [(lambda v: int(v) if rng.random() < 0.33 else float(v))(rng.randrange(0, 500)) for _ in range(n)]
        if model == "clustered":
            c = [rng.uniform(0, 100) for _ in range(rng.choice([1, 2, 3]))]
            return [rng.choice(c) + rng.uniform(-1, 1) for _ in range(n)]
        if model == "tied":
            v = [float(rng.randrange(0, 20)) for _ in range(max(1, n // 3))]
            return [rng.choice(v) for _ in range(n)]
        if model == "tiny":
            return [rng.uniform(0, 1e-3) for _ in range(n)]
        return [rng.uniform(1e6, 1e9) for _ in range(n)]
    span_s = rng.choice([0.001, 0.008, 0.05, 1, 60, 3600, 86400, 7 * 86400, 30 * 86400, 365 * 86400, 3 * 365 * 86400, 7 * 365 * 86400, 20 * 365 * 86400, 300 * 365 * 86400])
    anchor = rng.choice([
        dt.datetime(rng.randrange(1905, 2100), rng.randrange(1, 13), rng.randrange(1, 29), rng.randrange(24), rng.randrange(60), rng.randrange(60)),
        dt.datetime(2020, 2, 27, 22), dt.datetime(1999, 12, 30, 12), dt.datetime(1970, 1, 1), dt.datetime(1969, 12, 31, 23, 59, 59), dt.datetime(2021, 1, 29, 6), dt.datetime(2021, 3, 30), dt.datetime(2024, 2, 28, 23, 59),
    ])
    if kind == "date":
        days = max(1, int(span_s / 86400)) if span_s >= 86400 else rng.choice([1, 3, 10])
        out = []
        for _ in range(n):
            d = anchor.date() + dt.timedelta(days=rng.randrange(0, days + 1))
            out.append(d)
        return out
    if kind == "time":
        return [dt.time(rng.randrange(24), rng.randrange(60), rng.randrange(60)) for _ in range(n)]
    out = []
    for _ in range(n):
        t = anchor + dt.timedelta(seconds=span_s * rng.random())
        if not (span_s <= 0.05 and anchor.second % 2 == 0):
            # (short spans from an even-second anchor keep the microseconds: data finer than a millisecond, seeded/C07o)
            t = t.replace(microsecond=t.microsecond // 1000 * 1000)
        if kind == "mixed" and rng.random() < 0.3:
            out.append(t.date())
        else:
            out.append(t)
    if len(out) > 1 and rng.random() < 0.2:
        out[1] = out[0]  # a tie
    if rng.random() < 0.15:
        out[-1] = anchor  # a datum exactly on the anchor (the epoch, a month end, ...)
    return out


def gen_spec(rng, scale_kind=None, n=None, direction=None, c08=False, text_classes=None, dense=None, identity=None):
    if identity is None:
        identity = rng.random() < 0.05
    identity = identity and scale_kind in (None, "linear")
    if identity:
        scale_kind = "linear"
        if rng.random() < 0.6:
            n = rng.choice([2, 3, 4, 5, 6])
    scale_kind = scale_kind or rng.choice(["linear", "time", "time", "default"])
    if n is None:
        n = rng.choice([1, 2, 3, 3, 5, 8, 12, 20, 40])
    direction = direction or rng.choice(DIRECTIONS)
    if scale_kind == "linear":
        tkind = "float"
    else:
        tkind = rng.choice(["date", "datetime", "datetime", "mixed", "time"])
    times = gen_times(rng, tkind, n)
    if rng.random() < 0.5:
        order = list(range(n))
        rng.shuffle(order)
        times = [times[k] for k in order]
    tcls = rng.choice(text_classes or TEXT_CLASSES)
    widths = rng.sample(range(8, 8 + 3 * n + 40), n)  # distinct widths: every box identifies its datum
    if rng.random() < 0.2:
        widths = [w + rng.choice([0.5, 0.5, 0.7, 0.25, 0.328125, 0.0078125]) for w in widths]
    if rng.random() < 0.05:
        widths[rng.randrange(n)] = rng.choice([0, 0.0, 1])  # still distinct from every other width
    data = []
    for i in range(n):
        d = {"time": times[i], "width": widths[i], "uid": i}
        t = make_text(rng, tcls if tcls != "mixed" or rng.random() < 0.7 else "none", i)
        if t is not None:
            d["text"] = t
        data.append(d)
    axis_len = rng.choice([300, 460, 760, 1000])
    if rng.random() < 0.04:
        axis_len = rng.choice([20000, 70000, 1200000])  # a very long axis: coordinates of 5-7 digits in both back-ends
    other = rng.choice([200, 400, 600])
    m = {"left": rng.choice([0, 20, 33]), "right": rng.choice([0, 20]), "top": rng.choice([0, 20, 7]), "bottom": rng.choice([20, 5])}
    if direction in ("up", "down"):
        iw, ih = axis_len + m["left"] + m["right"], other + m["top"] + m["bottom"]
    else:
        iw, ih = other + m["left"] + m["right"], axis_len + m["top"] + m["bottom"]
    opts = {"direction": direction, "initialWidth": iw, "initialHeight": ih, "margin": m, "scale": scale_kind}
    if rng.random() < 0.7:
        opts["layerGap"] = rng.choice([1, 5, 30, 60, 60.5, 30.7, 12.9, 45.25])
    if rng.random() < 0.4:
        opts["labelPadding"] = rng.choice([{"left": 0, "right": 0, "top": 1, "bottom": 1}, {"left": 5, "right": 1, "top": 2, "bottom": 7},
                                           {"left": 2.5, "right": 2, "top": 3, "bottom": 2}, {"left": 9, "right": 9, "top": 3, "bottom": 2},
                                           {"left": 2.4, "right": 2.4, "top": 3.35, "bottom": 2.35}, {"left": 0.9, "right": 0.8, "top": 1.45, "bottom": 1.45},
                                           {"left": 0, "right": 1, "top": 12, "bottom": 9},
                                           {k: rng.choice([0, 1, 2, 3, 5, 9, 12]) for k in ("left", "right", "top", "bottom")}])
    lab = {}
    r = rng.random()
    if r < 0.6:
        lab["maxPos"] = axis_len
    elif r < 0.7:
        lab["maxPos"] = axis_len // 2
    if rng.random() < 0.3:
        lab["minPos"] = rng.choice([None, 10, 0])
    if rng.random() < 0.5:
        lab["nodeSpacing"] = rng.choice([3, 3, 5, 7.5]) if c08 else rng.choice([0, 1, 3, 7.5])
    if rng.random() < 0.4:
        lab["algorithm"] = rng.choice(["overlap", "simple", "none"])
    if rng.random() < 0.3:
        lab["density"] = rng.choice([0.5, 0.75, 1])
    if rng.random() < 0.2:
        lab["stubWidth"] = rng.choice([0, 1, 4])
    if rng.random() < 0.04:
        lab[rng.choice(["nodeHeight", "layerGap"])] = rng.choice([5, 200])  # renderer option names inside the ENGINE options: not the engine's to read
    if lab or rng.random() < 0.5:
        opts["labella"] = lab
    if rng.random() < 0.25:
        opts["showTicks"] = False
    if rng.random() < 0.15:
        opts["dotRadius"] = rng.choice([0, 1, 1.5, 5, 2.25])
    if rng.random() < 0.05:
        opts["textXOffset"], opts["textYOffset"] = rng.choice([("0em", "1em"), ("2px", "11px")])
    if rng.random() < 0.35:
        opts["showBorder"] = True
        if rng.random() < 0.6:
            opts["borderColor"] = rng.choice(["#0f0", "#123456", PALETTE3, {"fn": "by_parity"}])
    for cname in ("dotColor", "linkColor", "labelBgColor", "labelTextColor"):
        r = rng.random()
        if r < 0.15:
            opts[cname] = rng.choice(PALETTE3)
        elif r < 0.3:
            opts[cname] = rng.choice(PALETTE6)
        elif r < 0.42:
            opts[cname] = list(PALETTE6[: rng.choice([2, 3, 7])]) if rng.random() < 0.6 else list(PALETTE3)
        elif r < 0.55:
            opts[cname] = {"fn": rng.choice(["by_uid6", "by_uid3", "by_parity"])}
    if rng.random() < 0.15 and tkind != "time":
        # explicit domain covering the data
        ts = [normalise_time(t) for t in times]
        lo, hi = min(ts), max(ts)
        if scale_kind == "linear":
            pad = (hi - lo) * rng.choice([0, 0.1, 1]) + rng.choice([0, 1])
            opts["domain"] = [lo - pad, hi + pad]
            # an end of exactly 0 is an end like any other
            if lo > 0 and rng.random() < 0.5:
                opts["domain"][0] = 0.0
            elif hi < 0 and rng.random() < 0.5:
                opts["domain"][1] = 0.0
        else:
            pad = (hi - lo) * rng.choice([0, 0.1, 1]) + dt.timedelta(seconds=rng.choice([0, 1, 3600]))
            opts["domain"] = [lo - pad, hi + pad]
            # the property quantifies over instants of millisecond resolution
            opts["domain"] = [t.replace(microsecond=t.microsecond // 1000 * 1000) for t in opts["domain"]]
            if opts["domain"][1] < hi:
                opts["domain"][1] += dt.timedelta(milliseconds=1)
        if opts["domain"][0] == opts["domain"][1]:
            del opts["domain"]
    if identity:
        # identity axis: integer times on the domain [0, axis length], so every ideal position is an exact integer; with a low
        # density the labels are split over layers although many layouts (the sparse ones) displace nothing
        if n <= 6:
            ts = rng.sample(range(0, axis_len + 1, rng.choice([50, 60, 25])), n)
            base = rng.choice([8, 12, 20])
            for d in data:
                d["width"] = base + 3 * d["uid"]  # narrow, still distinct
        else:
            ts = [rng.randrange(axis_len + 1) for _ in range(n)]
        for d, t in zip(data, ts):
            d["time"] = float(t)
        opts["domain"] = [0.0, float(axis_len)]
        lab = opts.setdefault("labella", {})
        lab["maxPos"] = axis_len
        lab.pop("algorithm", None)
        lab.pop("minPos", None)
        lab["density"] = rng.choice([0.05, 0.1, 0.2, 0.3])
    if rng.random() < 0.2:
        lat = {}
        for k, vals in (("fontsize", ["10pt", "12pt"]), ("axisThickness", ["thin", "thick"]), ("linkThickness", ["thin", "ultra thick"]),
                        ("tickThickness", ["very thin", "very thick"]), ("borderThickness", ["thin", "thick"]), ("tickCross", [True]),
                        ("reproducible", [True])):
            if rng.random() < 0.35:
                lat[k] = rng.choice(vals)
        opts["latex"] = lat
    if rng.random() < 0.06 and tcls != "none":
        opts["textFn"] = {"fn": "text_with_uid"}
    elif rng.random() < 0.08 and tcls != "none":
        opts["textFn"] = {"fn": "text_from_label"}
        for d in data:
            if "text" in d:
                d["label"] = d.pop("text")
    if rng.random() < 0.06 and tkind in ("float", "datetime"):
        opts["timeFn"] = {"fn": "time_from_when"}
        for d in data:
            d["when"] = d["time"]
    if dense:
        pass
    sub_ms = [d["time"] for d in data if isinstance(d["time"], dt.datetime) and d["time"].microsecond % 1000]
    if sub_ms and scale_kind != "linear":
        # data finer than a millisecond: the axis domain itself stays at millisecond resolution (the quantifier of the scale
        # properties), given explicitly and covering the data
        ts = [normalise_time(d["time"]) for d in data]
        lo, hi = opts["domain"] if "domain" in opts else (min(ts), max(ts))
        lo = lo.replace(microsecond=lo.microsecond // 1000 * 1000)
        if hi.microsecond % 1000:
            hi = hi.replace(microsecond=hi.microsecond // 1000 * 1000) + dt.timedelta(milliseconds=1)
        if lo == hi:
            hi = hi + dt.timedelta(milliseconds=1)
        opts["domain"] = [lo, hi]
    spec = {"data": data, "options": opts}
    if sub_ms:
        spec["sub_ms"] = True
    if tkind in ("datetime", "mixed") and rng.random() < 0.08:
        spec["stamp_like"] = True
    return spec


def normalise_time(t):
    """The datum's time exactly as supplied: date -> midnight, datetime unchanged, time -> today + time."""
    if isinstance(t, dt.datetime):
        return t
    if isinstance(t, dt.date):
        return dt.datetime(t.year, t.month, t.day)
    if isinstance(t, dt.time):
        return dt.datetime.combine(dt.date.today(), t)
    return t


def build(spec, scale_objects=None):
    """Fresh Python objects for one timeline: (data, options, scale or None)."""
    data, options, scale = _build(spec, scale_objects)
    if spec.get("stamp_like"):
        # the datetime values are handed over as instances of a datetime subclass (as pandas.Timestamp is)
        from workloads.timedom import as_sub

        for d in data:
            for key in ("time", "when"):
                if type(d.get(key)) is dt.datetime:
                    d[key] = as_sub(d[key])
    return data, options, scale


def _build(spec, scale_objects=None):
    from labella.scale import LinearScale, TimeScale

    data = copy.deepcopy(spec["data"])
    o = copy.deepcopy(spec["options"]) if spec.get("options") is not None else None
    scale = None
    if o is not None:
        sk = o.pop("scale", "default")
        if sk == "linear":
            scale = LinearScale()
        elif sk == "time":
            scale = TimeScale()
        if scale is not None:
            o["scale"] = scale
        for k, v in list(o.items()):
            if isinstance(v, dict) and set(v) == {"fn"}:
                o[k] = FNLIB[v["fn"]]
    return data, o, scale


def datum_text(spec, d):
    o = spec.get("options") or {}
    if isinstance(o.get("textFn"), dict):
        return FNLIB[o["textFn"]["fn"]](d)
    return d.get("text")


def datum_time(spec, d):
    o = spec.get("options") or {}
    if isinstance(o.get("timeFn"), dict):
        return FNLIB[o["timeFn"]["fn"]](d)
    return d["time"]


def colour_of(spec, name, d, index, default):
    """Reference resolution of a colour option for datum d drawn at list index `index`."""
    o = (spec.get("options") or {}).get(name, default)
    if isinstance(o, list):
        return o[index % len(o)]
    if isinstance(o, dict):
        return FNLIB[o["fn"]](d)
    return o
