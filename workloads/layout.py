"""Wlayout: seeded label sets and engine options for C01-C04, C06 (and C05 in situ).

A case = (labels, options, tag); labels are dicts {"pos": p, "w": width}.
"""

import math

WIDTHS = [1, 10, 50, 33.5, 50.003]


def make_nodes(labels):
    from labella.node import Node

    if shares_payloads(labels):
        # several labels for one dated record: labels at the same data position carry the *same* payload object
        # (seeded/C04o: stubs shared per (layer, position, id(payload)))
        rec = {}
        return [Node(l["pos"], l["w"], data=rec.setdefault(l["pos"], {"at": l["pos"]})) for l in labels]
    return [Node(l["pos"], l["w"], data=("L", i)) for i, l in enumerate(labels)]


def shares_payloads(labels):
    """Order-independent rule (C06 permutes the input): about a third of the label sets."""
    return bool(labels) and (len(labels) + int(min(l["w"] for l in labels))) % 3 == 0


def required_width(labels, spacing):
    return sum(l["w"] for l in labels) + spacing * (len(labels) - 1)


def rand_width(rng, mode):
    if mode == "fixed":
        return None
    if mode == "table":
        return rng.choice(WIDTHS)
    if mode == "uniform":
        return rng.uniform(1, 120)
    return float(rng.randrange(5, 80))


def gen_positions(rng, n, model, lo=0.0, hi=1000.0):
    if model == "integers":
        return [float(rng.randrange(int(lo), int(hi) + 1)) for _ in range(n)]
    if model == "half":
        return [rng.randrange(int(lo) * 2, int(hi) * 2 + 1) / 2.0 for _ in range(n)]
    if model == "uniform":
        return [rng.uniform(lo, hi) for _ in range(n)]
    if model == "clusters":
        k = rng.choice([1, 1, 2, 3, 5])
        centres = [rng.uniform(lo, hi) for _ in range(k)]
        tight = rng.choice([0.0, 0.5, 3.0, 20.0])
        return [rng.choice(centres) + rng.uniform(-tight, tight) for _ in range(n)]
    if model == "far":
        # far from the origin, either sign: positions of the order 1e4..1e7 (float resolution of the solver's tolerances)
        base = rng.choice([1, -1]) * 10 ** rng.uniform(4, 7)
        return [base + rng.uniform(lo, hi) for _ in range(n)]
    if model == "ties":
        vals = [float(rng.randrange(int(lo), int(hi) + 1)) for _ in range(max(1, n // rng.choice([2, 3, 5])))]
        return [rng.choice(vals) for _ in range(n)]
    raise ValueError(model)


def gen_case(rng, max_n=200, heavy_ok=False):
    """Return (labels, options, tag).  One case in eight is the generated case moved along the axis so that one of its
    bounds lands exactly on the origin (a bound of 0 is a bound) or the whole layout lies on the negative side."""
    labels, opts, tag = _gen_case(rng, max_n, heavy_ok)
    if rng.random() < 0.125 and not tag.startswith("far/"):
        r = rng.random()
        if r < 0.45 and opts.get("maxPos") is not None:
            sh = -float(opts["maxPos"])
        elif r < 0.7 and opts.get("minPos") is not None:
            sh = -float(opts["minPos"])
        else:
            sh = -rng.choice([1000.0, 2500.0, 4096.0])
        if sh:
            labels = [{"pos": l["pos"] + sh, "w": l["w"]} for l in labels]
            if "minPos" not in opts:
                opts["minPos"] = 0  # the engine's default lower bound moves along with everything else
            for k in ("minPos", "maxPos"):
                if opts.get(k) is not None:
                    opts[k] = opts[k] + sh
            tag = tag + "+moved"
    return labels, opts, tag


def _gen_case(rng, max_n=200, heavy_ok=False):
    n = rng.choice([1, 2, 3, 5, 8, 15, 30, 60] * 3 + [120, 120, 200])
    n = min(n, max_n)
    r = rng.random()
    spacing = rng.choice([0, 1, 3, 3, 3, 7.5])
    opts = {"nodeSpacing": spacing}
    if r < 0.16:
        return _near_touching(rng, min(n, 60), opts)
    if r < 0.34:
        return _packing(rng, min(n, 60), opts)
    if r < 0.40:
        return _close_pairs(rng, opts)
    model = rng.choice(["integers", "half", "uniform", "clusters", "ties", "clusters", "far"])
    wmode = rng.choice(["fixed", "table", "uniform", "ints"])
    fixedw = rng.choice(WIDTHS + [20, 30])
    if model in ("clusters", "ties") and n > 60 and wmode != "fixed":
        wmode = "table"
    pos = gen_positions(rng, n, model)
    labels = [{"pos": p, "w": (fixedw if wmode == "fixed" else rand_width(rng, wmode))} for p in pos]
    b = rng.random()
    if model == "far" and b < 0.25:
        # keep the lower bound in the labels' neighbourhood (or absent): labels millions of units outside a bound make
        # the 1e10-weight soft walls yield by sum(pull)/1e10 > 1e-3, outside the tolerance the oracles grant
        opts["minPos"] = rng.choice([None, min(pos) - rng.choice([0, 50, 500])])
        tag = "lower-only" if opts["minPos"] is not None else "unbounded-nomin"
    elif b < 0.25:
        tag = "unbounded"
        if rng.random() < 0.5:
            opts["minPos"] = rng.choice([None, -50, 30, 0.5])
            tag = "lower-only" if opts["minPos"] is not None else "unbounded-nomin"
    elif model == "far":
        # bounds around the labels' own neighbourhood
        centre = sum(pos) / len(pos)
        opts["minPos"] = centre - rng.choice([300, 600, 2000])
        opts["maxPos"] = centre + rng.choice([300, 600, 2000])
        tag = "bounded"
    else:
        opts["maxPos"] = rng.choice([200, 500, 1000, 1000, 1500])
        if rng.random() < 0.4:
            opts["minPos"] = rng.choice([-50, 30, 0.5, None])
        tag = "bounded" if opts.get("minPos", 0) is not None else "upper-only"
    opts["density"] = rng.choice([0.3, 0.75, 0.85, 0.85, 1])
    opts["stubWidth"] = rng.choice([0, 1, 1, 4, 1.5, 2.5, 0.5])
    opts["algorithm"] = rng.choice(["overlap", "overlap", "simple", "none"])
    if opts["algorithm"] == "overlap" and "maxPos" in opts and model in ("clusters", "ties") and n > 60:
        # the layering step itself is quadratic per layer on heavily overlapping sets (26 s for 200 labels):
        # keep those for the thorough tier, and rarely
        if not heavy_ok or rng.random() < 0.95:
            labels = labels[:60]
            n = 60
    if rng.random() < 0.08 and n >= 3 and "maxPos" in opts:
        # a label wider than the whole layer
        labels[rng.randrange(n)]["w"] = float(opts["maxPos"]) - float(opts.get("minPos", 0) or 0) + 50
        tag += "+wide-label"
    return labels, opts, "%s/%s/%s" % (model, tag, opts["algorithm"])


def _close_pairs(rng, opts):
    """Sparse labels plus one or two pairs whose data positions are 1-3 units apart, a budget that forces a split (the
    overlapping pairs are punted first) and a small label spacing: in the stub layer everything is conflict-free at the
    label spacing, only the fixed 2-unit line spacing between the two neighbouring stubs asks for a move."""
    k = rng.choice([3, 4, 6])
    step = rng.choice([100.0, 150.0])
    w = rng.choice([20, 30, 10])
    labels = [{"pos": 50.0 + i * step, "w": w} for i in range(k)]
    for _ in range(rng.choice([1, 1, 2])):
        base = 50.0 + step * rng.randrange(k) + step / 2 + rng.choice([0.0, 0.5, 7.0])
        labels += [{"pos": base, "w": w}, {"pos": base + rng.choice([1.0, 1.5, 2.0, 2.9]), "w": w}]
    rng.shuffle(labels)
    opts["nodeSpacing"] = rng.choice([0, 0, 0.5, 1])
    opts["maxPos"] = 50.0 + k * step
    req = required_width(labels, opts["nodeSpacing"])
    opts["density"] = max(0.05, min(1.0, (req - w * rng.choice([1, 2])) / opts["maxPos"]))
    opts["stubWidth"] = rng.choice([1, 1, 0, 0.5])
    opts["algorithm"] = "overlap"
    return labels, opts, "close-pairs/bounded/overlap"


def _near_touching(rng, n, opts):
    """Chain whose neighbours are spaced gap - eps: exposes early termination of the solver."""
    n = max(n, 3)
    w = rng.choice([10, 33.5, 50, 20.25])
    eps = rng.choice([1e-3, 1e-2, 0.1, 0.3])
    gap = w + opts["nodeSpacing"]
    start = rng.choice([0.0, 100.0, 37.5])
    labels = [{"pos": start + i * (gap - eps), "w": w} for i in range(n)]
    if rng.random() < 0.5:
        rng.shuffle(labels)
    opts["algorithm"] = rng.choice(["none", "overlap"])
    if rng.random() < 0.5:
        opts["minPos"] = None
    return labels, opts, "near-touching/unbounded/" + opts["algorithm"]


def _packing(rng, n, opts):
    """Exact-fit / barely-does-not-fit / gross-misfit packings between both bounds (single layer)."""
    n = max(n, 2)
    wmode = rng.choice(["fixed", "table", "ints"])
    fixedw = rng.choice([10, 33.5, 50])
    labels = [{"pos": 0.0, "w": (fixedw if wmode == "fixed" else rand_width(rng, wmode))} for _ in range(n)]
    sp = opts["nodeSpacing"]
    req = required_width(labels, sp)
    minpos = rng.choice([0, 0, -50, 30, 0.5])
    kind = rng.choice(["exact-fit", "slack-fit", "barely-unfit", "gross-unfit"])
    if kind == "exact-fit":
        avail = req
    elif kind == "slack-fit":
        avail = req + rng.choice([1, 10, 100, 0.5])
    elif kind == "barely-unfit":
        avail = req - rng.choice([1e-6, 0.5, 1])
    else:
        avail = req / 3.0
    opts["minPos"] = minpos
    opts["maxPos"] = minpos + avail
    opts["algorithm"] = "none"
    span = max(avail, 1.0)
    model = rng.choice(["uniform", "clusters", "left", "right", "beyond"])
    for l in labels:
        if model == "uniform":
            l["pos"] = minpos + rng.uniform(0, span)
        elif model == "clusters":
            l["pos"] = minpos + span * rng.choice([0.2, 0.5, 0.9]) + rng.uniform(-2, 2)
        elif model == "left":
            l["pos"] = minpos + rng.uniform(-20, 20)
        elif model == "right":
            l["pos"] = minpos + span + rng.uniform(-20, 20)
        else:
            l["pos"] = minpos + rng.uniform(-0.5 * span, 1.5 * span)
    return labels, opts, "packing-%s/bounded/none" % kind
