"""Seeded generators of linear domains for C13/C14 (guard: span >= 1e-6 * max|end|)."""

import math


def guard_ok(a, b):
    span = abs(b - a)
    return span > 0 and span >= 1e-6 * max(abs(a), abs(b)) and math.isfinite(a) and math.isfinite(b)


def gen_domain(rng):
    """Return (a, b, m, tag). m None = default count."""
    m = rng.choice([None, None, 1, 2, 3, 4, 5, 7, 10, 10, 13, 20, 25, 50, 99, 100, rng.randrange(1, 101)])
    meff = 10 if m is None else m
    r = rng.random()
    if 0.36 <= r < 0.40:
        # tiny magnitudes: everything about ticks and nice() is relative to the span, nothing is absolute (seeded/C14o: niced
        # ends rounded to 12 decimals)
        span = 10 ** rng.uniform(-16, -9)
        lo = rng.choice([0, 1, 1]) * rng.uniform(-1, 1) * span * 10 ** rng.uniform(0, 3) - span * rng.random()
        hi = lo + span
        tag = "random"
    elif r < 0.40:
        span = 10 ** rng.uniform(-9, 12)
        off = rng.choice([0, 0, 1, 1, 1]) * rng.uniform(-1, 1) * min(1e9, span * 10 ** rng.uniform(0, 5))
        lo = off - span * rng.random()
        hi = lo + span
        tag = "random"
    elif r < 0.60:
        # spans at the step thresholds err = 0.15, 0.35, 0.75 (+- eps)
        k = rng.randrange(-8, 10)
        thr = rng.choice([0.15, 0.35, 0.75])
        target = thr * (1 + rng.choice([0, 1e-12, -1e-12, 1e-9, -1e-9, 1e-3, -1e-3, 4e-3, -4e-3, 1.2e-2, -1.2e-2, rng.uniform(-0.03, 0.03)]))
        span = meff * 10.0 ** k / target
        lo = rng.choice([0.0, rng.uniform(-1, 1) * span * 10 ** rng.uniform(0, 3)])
        if rng.random() < 0.4:
            # the lower end just above a multiple of the coarser of the two candidate steps: as few multiples as possible fit
            coarse = {0.15: 10, 0.35: 5, 0.75: 2}[thr] * 10.0 ** k
            lo = (rng.randrange(-50, 50) + rng.choice([1e-6, 1e-3, 0.02])) * coarse
        hi = lo + span
        tag = "threshold"
    elif r < 0.80:
        # ends that are exact multiples of a 1-2-5 step
        k = rng.randrange(-7, 9)
        h = rng.choice([1, 2, 5]) * 10.0 ** k
        i = rng.randrange(-2000, 2000)
        n = rng.choice([1, 2, 3, 5, 8, 10, 17, 40, 100, 143, 400])
        lo, hi = i * h, (i + n) * h
        tag = "exact-multiples"
    elif r < 0.90:
        lo = float(rng.randrange(-1000, 1000))
        hi = lo + rng.choice([1, 2, 3, 7, 10, 24, 60, 100, 365, 1000])
        tag = "integers"
    elif r < 0.93:
        # symmetric around zero / an end exactly zero / span an exact power of ten
        k = rng.randrange(-6, 9)
        mode = rng.choice(["sym", "zero-end", "pow10", "unit"])
        if mode == "sym":
            v = rng.choice([1, 2, 5, 3.7]) * 10.0 ** k
            lo, hi = -v, v
        elif mode == "zero-end":
            v = rng.choice([1, 2, 5, 3.7]) * 10.0 ** k
            lo, hi = (0.0, v) if rng.random() < 0.5 else (-v, 0.0)
        elif mode == "pow10":
            lo = rng.choice([0.0, 10.0 ** k, -3 * 10.0 ** k])
            hi = lo + 10.0 ** k
        else:
            lo, hi = 0.0, 1.0
        tag = "integers"
    else:
        # narrow span far from zero (at the guard)
        mag = 10 ** rng.uniform(0, 9)
        span = mag * 10 ** rng.uniform(-6, -3)
        lo = mag * rng.choice([1, -1])
        hi = lo + span
        tag = "narrow"
    if not guard_ok(lo, hi) or max(abs(lo), abs(hi)) > 1e13:
        return gen_domain(rng)
    if rng.random() < 0.3:
        lo, hi = hi, lo
    return lo, hi, m, tag
