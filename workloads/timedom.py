"""Seeded generators of time domains (ms resolution, years 1900-2200) for C14-C16."""

import calendar
from datetime import datetime, timedelta

LO = datetime(1900, 1, 1)
HI = datetime(2200, 12, 31, 23, 59, 59, 999000)
TOTAL_MS = int((HI - LO) / timedelta(milliseconds=1))

SPANS_MS = [
    1, 2, 5, 7, 8, 9, 10, 15, 50, 100, 500, 1000, 5000, 15000, 30000, 60000, 300000, 900000, 1800000, 3600000, 3 * 3600000,
    6 * 3600000, 12 * 3600000, 86400000, 2 * 86400000, 7 * 86400000, 30 * 86400000, 90 * 86400000, 365 * 86400000,
    3 * 365 * 86400000, 10 * 365 * 86400000, 50 * 365 * 86400000, 250 * 365 * 86400000,
]


class StampLike(datetime):
    """An instance of a datetime subclass (as pandas.Timestamp is): still a naive datetime of ms resolution."""


def as_sub(t):
    return StampLike(t.year, t.month, t.day, t.hour, t.minute, t.second, t.microsecond)


def ms(n):
    return timedelta(milliseconds=n)


def clampdt(t):
    return min(max(t, LO), HI)


def special_anchor(rng):
    y = rng.randrange(1900, 2200)
    r = rng.random()
    if r < 0.06:  # special instants: the epoch (0 ms is falsy), the edges of the explored range, 2000-01-01 / 29 Feb 2000
        return rng.choice([datetime(1970, 1, 1), datetime(1900, 1, 1), datetime(2200, 12, 31), datetime(2000, 1, 1), datetime(2000, 2, 29), datetime(1969, 12, 31, 23, 59, 59)])
    if r < 0.35:  # the last days of a month
        m = rng.randrange(1, 13)
        last = calendar.monthrange(y, m)[1]
        return datetime(y, m, last) - timedelta(days=rng.randrange(0, 4))
    if r < 0.5:  # leap day neighbourhood
        yy = rng.choice([1904, 1996, 2000, 2004, 2020, 2024, 2096, 2104, 1900, 2100])
        return datetime(yy, 2, 27) + timedelta(days=rng.randrange(0, 4))
    if r < 0.65:  # year end
        return datetime(y, 12, 29) + timedelta(days=rng.randrange(0, 4))
    if r < 0.8:  # week boundary (a Sunday)
        d = datetime(y, rng.randrange(1, 13), rng.randrange(1, 28))
        return d - timedelta(days=d.isoweekday() % 7)
    return datetime(y, rng.randrange(1, 13), 1)


def _just_beside_a_boundary(rng, a, b):
    """Moves the earlier end to 1 ms after (or the later end to 1 ms before) a boundary of a random unit."""
    from oracles import calendar as C

    u = rng.choice(["second", "minute", "hour", "hour", "day", "week", "month"])
    lo, hi = (a, b) if a <= b else (b, a)
    try:
        if rng.random() < 0.5:
            lo2 = C.floor(u, lo) + timedelta(milliseconds=1)
            if LO <= lo2 < hi:
                lo = lo2
        else:
            hi2 = C.ceil(u, hi) - timedelta(milliseconds=1)
            if lo < hi2 < HI:
                hi = hi2
    except (ValueError, OverflowError):
        pass
    return (lo, hi) if a <= b else (hi, lo)


STEPS_MS = [1e3, 5e3, 15e3, 3e4, 6e4, 3e5, 9e5, 18e5, 36e5, 108e5, 216e5, 432e5, 864e5, 1728e5, 6048e5, 2592e6, 7776e6, 31536e6]


def gen_time_domain(rng, min_span_ms=1, max_span_ms=250 * 365 * 86400000):
    a, b, m, tag = _gen_time_domain(rng, min_span_ms, max_span_ms)
    if rng.random() < 0.06 and m:
        # span/m right at a switch point of the tick table (geometric mean of two neighbouring steps): the largest and the
        # smallest admissible tick counts occur here; the earlier end sits on a boundary so that as many ticks as possible fit
        i = rng.randrange(len(STEPS_MS) - 1)
        sw = (STEPS_MS[i] * STEPS_MS[i + 1]) ** 0.5
        span = int(m * sw * (1 + rng.choice([-0.012, -0.004, -1e-6, 1e-6, 0.004])))
        if min_span_ms <= span <= max_span_ms:
            from oracles import calendar as C

            lo = min(a, b)
            try:
                lo = C.floor(rng.choice(["minute", "hour", "day"]), lo)
                hi = lo + timedelta(milliseconds=span)
                if LO <= lo and hi <= HI:
                    a, b = (lo, hi) if a <= b else (hi, lo)
            except (ValueError, OverflowError):
                pass
    if rng.random() < 0.08:
        a, b = _just_beside_a_boundary(rng, a, b)
    return a, b, m, tag


def _gen_time_domain(rng, min_span_ms=1, max_span_ms=250 * 365 * 86400000):
    """Return (a, b, m, tag): a != b datetimes at ms resolution, either orientation; m None = default count."""
    m = rng.choice([None, None, None, 2, 3, 5, 8, 10, 12, 20, 30, 50, rng.randrange(2, 51)])
    r = rng.random()
    if r < 0.12:
        span = rng.choice([7, 8, 9, 7, 8, 9, 6, 11, 3, 1, 2])
        tag = "tiny-ms"
    elif r < 0.18:
        # spans that are exactly one table step, or m times it
        span = rng.choice(SPANS_MS) * rng.choice([1, 1, 2, 10, (m or 10)])
        tag = "table"
    elif r < 0.55:
        base = rng.choice(SPANS_MS)
        span = max(1, int(base * rng.uniform(0.6, 1.9)))
        tag = "table"
    else:
        import math

        span = int(10 ** rng.uniform(0, math.log10(250 * 365 * 86400000)))
        tag = "loguniform"
    span = max(min_span_ms, min(span, max_span_ms))
    q = rng.random()
    if q < 0.12:
        a = special_anchor(rng)  # the domain STARTS exactly on the special instant
        if tag != "tiny-ms":
            tag += "+calendar-edge"
    elif q < 0.45:
        a = special_anchor(rng) + ms(rng.choice([0, 0, rng.randrange(86400000)])) - ms(int(span * rng.random()))
        if tag != "tiny-ms":
            tag += "+calendar-edge"
    elif q < 0.55 and span >= 3 * 86400000 and span <= 40 * 86400000:
        # day-granularity window crossing the 29th-31st
        y, mo = rng.randrange(1900, 2200), rng.randrange(1, 13)
        a = datetime(y, mo, 27) + ms(rng.randrange(86400000)) - ms(int(span * rng.random() * 0.5))
        tag = "day-window-month-end"
    else:
        a = LO + ms(rng.randrange(TOTAL_MS))
    a = clampdt(a)
    b = a + ms(span)
    if b > HI:
        b = HI
        a = b - ms(span)
        if a < LO:
            a = LO
    if a == b:
        b = a + ms(1)
    if rng.random() < 0.25:
        a, b = b, a
    return a, b, m, tag
